CONSTANTS W = 1  MaxLen = 3
INIT Init
NEXT Next
CHECK_DEADLOCK FALSE
INVARIANTS StepsWithinWeight LoopTheorem EmptyStackFails PushIsResult WrapAround DivByZeroFails NoLoopNoRepeat

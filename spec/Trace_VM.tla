------------------------------ MODULE Trace_VM ------------------------------
(***************************************************************************)
(* Trace validator for MelVM runs recorded from the real interpreter       *)
(* (harness `vm`, `vmcost`).  One record = one program run.  For each      *)
(* record the spec runs the same program on the same heap with the same    *)
(* oracle facts and evaluates the monitors of C10 / C11 / C05(weight).     *)
(* Verdict lines:  <<"VERDICT", property, line, clause>>                   *)
(***************************************************************************)
EXTENDS MelVM, Json, IOUtils, SequencesExt

Rec == ndJsonDeserialize(IOEnv.TRACE)
VARIABLES l
BIG == 16384

RangeS(s) == {s[i] : i \in DOMAIN s}
HeapOf(pairs) == [a \in {p[1] : p \in RangeS(pairs)} |-> (CHOOSE p \in RangeS(pairs) : p[1] = a)[2]]
OracleOf(f) == [hash |-> [x \in {h.x : h \in RangeS(f.hash)} |-> (CHOOSE h \in RangeS(f.hash) : h.x = x).h],
                sig  |-> [k \in {<<g.msg, g.pk, g.sig>> : g \in RangeS(f.sig)} |->
                             (CHOOSE g \in RangeS(f.sig) : <<g.msg, g.pk, g.sig>> = k).ok]]

RECURSIVE Norm(_)
Norm(v) == IF v.t = "b" THEN (IF Len(v.v) > BIG THEN [t |-> "big", v |-> <<>>] ELSE v)
           ELSE IF v.t = "v" THEN (IF Len(v.v) > BIG THEN [t |-> "big", v |-> <<>>]
                                   ELSE [t |-> "v", v |-> [i \in DOMAIN v.v |-> Norm(v.v[i])]])
           ELSE v

\* C11 cost-model constants (documented in DESIGN.md section 6/C11)
WEIGH_C1 == 4            \* weigh_work <= WEIGH_C1 * n^2 + 16
ALLOC_C0 == 65536        \* peak bytes live while executing <= ALLOC_C0 + ALLOC_C1 * weight
ALLOC_C1 == 4096
ALLOC_T0 == 1048576      \* total bytes allocated while executing <= ALLOC_T0 + ALLOC_T1 * weight (deep shared structures re-allocate a path per append)
ALLOC_T1 == 65536

Verdicts(r) ==
    LET out == IF r.norun THEN [res |-> r.res, steps |-> r.steps, pcsum |-> r.pcsum, maxdepth |-> r.maxdepth]
               ELSE Run(r.ops, HeapOf(r.heap), OracleOf(r.facts), 3000000)
        w   == Weight(r.ops)
        res == Norm(out.res)
        n   == Len(r.ops)
    IN  (IF r.res.t = "panic" \/ r.pub.t = "panic" THEN {<<"C09", "interpreter panicked">>, <<"C10", "interpreter panicked">>} ELSE {})
        \cup (IF r.res.t # "panic" /\ r.res.t # "capped" /\ res # r.res
              THEN {<<"C10", IF res.t = "missing" THEN "execution path diverges from the specification (oracle fact never requested)"
                             ELSE "result differs from the specification">>} ELSE {})
        \* spec -> impl replay: the result TLC printed when it generated the program
        \cup (IF "expect" \in DOMAIN r /\ r.res.t # "panic" /\ r.expect # r.res
              THEN {<<"C10", "result differs from the one the specification printed for this generated program">>} ELSE {})
        \cup (IF r.pub.t # "panic" /\ r.res.t # "capped" /\ r.res.t # "panic" /\ r.pub # r.res
              THEN {<<"C10", "public execute and single-stepping disagree (non-deterministic)">>} ELSE {})
        \cup (IF r.res.t \notin {"panic", "capped"} /\ res = r.res /\ (out.steps # r.steps \/ out.pcsum # r.pcsum \/ out.maxdepth # r.maxdepth)
              THEN {<<"C10", "instruction count / pc sequence / loop depth differ from the specification">>} ELSE {})
        \cup (IF r.wpanic THEN {<<"C09", "weight() panicked">>}
              ELSE IF w # r.weight THEN {<<"C05", "covenant weight differs from the specification">>, <<"C11", "covenant weight differs from the specification">>} ELSE {})
        \cup (IF ~r.wpanic /\ (r.capped \/ Gt(FromInt(r.steps), r.weight))
              THEN {<<"C11", "executed more instructions than the weight">>} ELSE {})
        \cup (IF Gt(FromInt(out.steps), w) THEN {<<"C11", "specification itself exceeds weight (design)">>} ELSE {})
        \cup (IF Gt(FromInt(r.peak), Add(FromInt(ALLOC_C0), MulSmall(w, ALLOC_C1)))
              THEN {<<"C11", "peak memory while executing exceeds the cost model (bytes materialised without being paid for)">>} ELSE {})
        \cup (IF Gt(FromInt(r.alloc), Add(FromInt(ALLOC_T0), MulSmall(w, ALLOC_T1)))
              THEN {<<"C11", "total allocation while executing exceeds the cost model">>} ELSE {})
        \* coarse watchdog (the only wall-clock clause): 10 s for a covenant whose weight is below 10^6; honest runs take milliseconds
        \cup (IF r.ms > 10000 /\ Lt(w, FromInt(1000000)) THEN {<<"C11", "executing a covenant of weight below 10^6 took more than 10 seconds">>} ELSE {})
        \cup (IF r.work > WEIGH_C1 * n * n + 16 THEN {<<"C11", "weighing cost super-quadratic in program length">>} ELSE {})

\* deep nesting / great length, run in a child process: k nested Loop(0, 65535), or k Noop, followed by PushIC 1 weigh k + 1
DeepVerdicts(r) ==
       (IF r.status # "ok" THEN {<<"C09", "weighing a covenant of " \o (IF r.fam = "cost-long-flat" THEN "very many instructions" ELSE "deeply nested loops") \o " killed the process (" \o r.status \o ")">>,
                                 <<"C11", "weighing a covenant of " \o (IF r.fam = "cost-long-flat" THEN "very many instructions" ELSE "deeply nested loops") \o " killed the process (" \o r.status \o ")">>} ELSE {})
  \cup (IF r.status = "ok" /\ r.weight # FromInt(r.k + 1) THEN {<<"C11", "covenant weight differs from the specification">>, <<"C05", "covenant weight differs from the specification">>,
                                                                  <<"C12", "the weight of a very long covenant computed from its bytes is not the weight of its instructions (decoding does not consume the whole input)">>} ELSE {})
  \* cost of weighing: the same quadratic model as for the in-process records (steps of the weigher, a deterministic counter), n = k + 1 instructions;
  \* wall-clock time is only a hang guard (the child is killed after 15 minutes: status "timeout")
  \cup (IF r.status = "ok" /\ Gt(r.work, Add(MulSmall(Mul(FromInt(r.k + 1), FromInt(r.k + 1)), WEIGH_C1), FromInt(16)))
        THEN {<<"C11", "weighing cost super-quadratic in program length">>} ELSE {})
\* deeply nested values, run in a child process.  KNOWN FINDING (not repaired): cloning / dropping a vector nested tens of thousands deep
\* recurses once per level and exhausts the stack; tagged so that known_findings.json can list exactly this family
DeepValVerdicts(r) ==
    IF r.status # "ok" THEN {<<"C09", "executing a covenant that nests vectors " \o (IF r.depth >= 10000 THEN "more than 10000" ELSE "less than 10000") \o " deep killed the process", 
                              IF r.status = "abort" /\ r.depth >= 10000 THEN "KF-deep-value-nesting" ELSE "">>} ELSE {}
AllVerdicts(r) == IF r.ev = "deep" THEN DeepVerdicts(r) ELSE IF r.ev = "deepval" THEN DeepValVerdicts(r) ELSE Verdicts(r)

Init == l = 1
Next == /\ l <= Len(Rec)
        /\ l' = l + 1
        /\ \A v \in AllVerdicts(Rec[l]) : PrintT(ToJson([k |-> "VERDICT", p |-> v[1], l |-> l, c |-> v[2], kf |-> IF Len(v) >= 3 THEN v[3] ELSE "", fam |-> Rec[l].fam]))
Post == TLCGet("stats").diameter - 1 = Len(Rec)
=============================================================================

-------------------------------- MODULE Codec --------------------------------
(***************************************************************************)
(* MelVM bytecode codec: Decode (bytes -> ops | fail) and Encode.          *)
(* Opcodes are the records used by MelVM.tla.                              *)
(***************************************************************************)
EXTENDS BigNat, TLC

LOCAL Simple ==    \* opcode byte -> name, for argument-free instructions
    (9 :> "Noop") @@ (16 :> "Add") @@ (17 :> "Sub") @@ (18 :> "Mul") @@ (19 :> "Div") @@ (20 :> "Rem")
    @@ (32 :> "And") @@ (33 :> "Or") @@ (34 :> "Xor") @@ (35 :> "Not") @@ (36 :> "Eql") @@ (37 :> "Lt")
    @@ (38 :> "Gt") @@ (39 :> "Shl") @@ (40 :> "Shr")
    @@ (64 :> "Load") @@ (65 :> "Store")
    @@ (80 :> "VRef") @@ (81 :> "VAppend") @@ (82 :> "VEmpty") @@ (83 :> "VLength") @@ (84 :> "VSlice")
    @@ (85 :> "VSet") @@ (86 :> "VPush") @@ (87 :> "VCons")
    @@ (112 :> "BRef") @@ (113 :> "BAppend") @@ (114 :> "BEmpty") @@ (115 :> "BLength") @@ (116 :> "BSlice")
    @@ (117 :> "BSet") @@ (118 :> "BPush") @@ (119 :> "BCons")
    @@ (192 :> "ItoB") @@ (193 :> "BtoI") @@ (194 :> "TypeQ") @@ (255 :> "Dup")
LOCAL U16Arg ==    \* opcode byte -> <<name, field>> for one u16 big-endian argument
    (48 :> <<"Hash", "n">>) @@ (50 :> <<"SigEOk", "n">>) @@ (66 :> <<"LoadImm", "a">>) @@ (67 :> <<"StoreImm", "a">>)
    @@ (160 :> <<"Jmp", "k">>) @@ (161 :> <<"Bez", "k">>) @@ (162 :> <<"Bnz", "k">>)

LOCAL Be16(bs, i) == bs[i] * 256 + bs[i + 1]
NoOp == [op |-> "none"]
\* decode one instruction starting at position i (1-based); returns [ok, o, next]
DecodeOne(bs, i) ==
    LET n == Len(bs)
        b == bs[i]
        bad == [ok |-> FALSE, o |-> NoOp, next |-> i]
    IN IF b \in DOMAIN Simple THEN [ok |-> TRUE, o |-> [op |-> Simple[b]], next |-> i + 1]
       ELSE IF b \in DOMAIN U16Arg THEN
            IF i + 2 > n THEN bad
            ELSE LET v == Be16(bs, i + 1) IN
                 [ok |-> TRUE, next |-> i + 3,
                  o |-> IF U16Arg[b][2] = "n" THEN [op |-> U16Arg[b][1], n |-> v]
                        ELSE IF U16Arg[b][2] = "a" THEN [op |-> U16Arg[b][1], a |-> v]
                        ELSE [op |-> U16Arg[b][1], k |-> v]]
       ELSE IF b = 21 THEN IF i + 1 > n THEN bad ELSE [ok |-> TRUE, o |-> [op |-> "Exp", k |-> bs[i + 1]], next |-> i + 2]
       ELSE IF b = 176 THEN IF i + 4 > n THEN bad
                            ELSE [ok |-> TRUE, o |-> [op |-> "Loop", n |-> Be16(bs, i + 1), m |-> Be16(bs, i + 3)], next |-> i + 5]
       ELSE IF b = 240 THEN IF i + 1 > n \/ i + 1 + bs[i + 1] > n THEN bad
                            ELSE [ok |-> TRUE, o |-> [op |-> "PushB", b |-> SubSeq(bs, i + 2, i + 1 + bs[i + 1])], next |-> i + 2 + bs[i + 1]]
       ELSE IF b = 241 THEN IF i + 32 > n THEN bad
                            ELSE [ok |-> TRUE, o |-> [op |-> "PushI", i |-> FromBytesBE(SubSeq(bs, i + 1, i + 32))], next |-> i + 33]
       ELSE IF b = 242 THEN
            IF i + 1 > n THEN bad
            ELSE LET k == bs[i + 1] IN
                 IF k > 32 \/ i + 1 + k > n THEN bad
                 ELSE IF k > 0 /\ bs[i + 2] = 0 THEN bad          \* non-canonical: leading zero byte
                 ELSE [ok |-> TRUE, o |-> [op |-> "PushIC", i |-> FromBytesBE(SubSeq(bs, i + 2, i + 1 + k))], next |-> i + 2 + k]
       ELSE bad

RECURSIVE DecodeFrom(_, _, _)
DecodeFrom(bs, i, acc) ==
    IF i > Len(bs) THEN [ok |-> TRUE, ops |-> acc]
    ELSE LET r == DecodeOne(bs, i) IN
         IF r.ok THEN DecodeFrom(bs, r.next, Append(acc, r.o)) ELSE [ok |-> FALSE, ops |-> <<>>]
Decode(bs) == DecodeFrom(bs, 1, <<>>)

\* ---- encoder -------------------------------------------------------------------
LOCAL Inv(f) == [v \in {f[k] : k \in DOMAIN f} |-> CHOOSE k \in DOMAIN f : f[k] = v]
LOCAL SimpleInv == Inv(Simple)
LOCAL U16Byte == [nm \in {U16Arg[k][1] : k \in DOMAIN U16Arg} |-> CHOOSE k \in DOMAIN U16Arg : U16Arg[k][1] = nm]
LOCAL Be16Bytes(v) == <<v \div 256, v % 256>>
MinimalBE(x) == [j \in 1..Len(x) |-> x[Len(x) + 1 - j]]     \* big-endian bytes without leading zeros
EncodeOne(o) ==
    IF o.op \in DOMAIN SimpleInv THEN <<SimpleInv[o.op]>>
    ELSE IF o.op \in {"Hash", "SigEOk"} THEN <<U16Byte[o.op]>> \o Be16Bytes(o.n)
    ELSE IF o.op \in {"LoadImm", "StoreImm"} THEN <<U16Byte[o.op]>> \o Be16Bytes(o.a)
    ELSE IF o.op \in {"Jmp", "Bez", "Bnz"} THEN <<U16Byte[o.op]>> \o Be16Bytes(o.k)
    ELSE IF o.op = "Exp" THEN <<21, o.k>>
    ELSE IF o.op = "Loop" THEN <<176>> \o Be16Bytes(o.n) \o Be16Bytes(o.m)
    ELSE IF o.op = "PushB" THEN <<240, Len(o.b)>> \o o.b
    ELSE IF o.op = "PushI" THEN <<241>> \o ToBytesBE(o.i, 32)
    ELSE <<242, Len(o.i)>> \o MinimalBE(o.i)                   \* PushIC
RECURSIVE EncodeFrom(_, _)
EncodeFrom(ops, i) == IF i > Len(ops) THEN <<>> ELSE EncodeOne(ops[i]) \o EncodeFrom(ops, i + 1)
Encode(ops) == EncodeFrom(ops, 1)
=============================================================================

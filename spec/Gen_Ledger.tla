----------------------------- MODULE Gen_Ledger -----------------------------
(***************************************************************************)
(* spec -> impl for the ledger: the exhaustive ledger model (MC_Ledger:    *)
(* the same universe, the same actions, Ledger.tla's operators) run with   *)
(* the REAL protocol constants on a network / fee multiplier where the     *)
(* abstract seal is exact (Testnet below every TIP, multiplier 0: no       *)
(* subsidy, no counts, minimum fee 0).  TLC explores every behaviour up to *)
(* MaxHeight blocks and prints, for EVERY edge of the state graph (each    *)
(* distinct state x each enabled action), the shortest action path to the  *)
(* source state, the action, and the state the specification expects after *)
(* it.  The harness (`genledger`) turns the universe into real signed      *)
(* transactions, replays every edge on the real code and records the calls *)
(* as an ordinary ledger trace: Trace_Ledger judges every step as usual,   *)
(* and the printed expectation is compared with the observed outcome       *)
(* through the trace's agreement claims (expectation first, observation    *)
(* second, same key).                                                      *)
(***************************************************************************)
EXTENDS MC_Ledger, Json

VARIABLE hist
GenNet == NET_TESTNET
gvars == <<vars, last, hist>>
GView == vars

CovTable == [T |-> CovT.bytes, F |-> CovF.bytes, I0 |-> CovI.bytes]
Expect == [ok |-> last'.ok, coins |-> CoinSeq(cm'), feePool |-> feePool', tips |-> tips', height |-> height', phase |-> phase']
Edge(a) == PrintT(ToJson([k |-> "EDGE", path |-> hist, act |-> a, expect |-> Expect]))

GInit == Init /\ hist = <<>> /\ PrintT(ToJson([k |-> "UNIVERSE", txs |-> U, covs |-> CovTable, net |-> GenNet, feeMult |-> FeeMultInit,
                                                gen |-> [cov |-> "T", val |-> N(3), denom |-> "MEL"], feePool |-> N(5)]))
GNext == \/ \E b \in Batches : LET a == [t |-> "batch", b |-> b, w |-> FALSE] IN ApplyBatch(b) /\ hist' = Append(hist, a) /\ Edge(a)
         \/ \E w \in BOOLEAN : LET a == [t |-> "seal", b |-> <<>>, w |-> w] IN DoSeal(w) /\ hist' = Append(hist, a) /\ Edge(a)
         \/ LET a == [t |-> "next", b |-> <<>>, w |-> FALSE] IN NextUnsealed /\ hist' = Append(hist, a) /\ Edge(a)
=============================================================================

---------------------------- MODULE MC_FeeMultInt ----------------------------
(***************************************************************************)
(* Ties apalache/FeeMultInt.tla (integers, proved for all u128 by          *)
(* Apalache) to Seal!NextFeeMult (BigNat, bound to the code by traces):    *)
(* TLC compares the two on every multiplier below MaxM and every delta.    *)
(* (TLC integers are 32-bit: the integer module's 2^128-1 is overridden by *)
(* a large TLC integer; no value here comes near either.)                  *)
(***************************************************************************)
EXTENDS Seal
CONSTANTS MaxM
VARIABLES m, d, t, out
RECURSIVE Pow2Int(_)
I == INSTANCE FeeMultInt
MC_U128 == 2147483647
MC_P64 == 65536
Grid == (0..MaxM) \cup UNION { { Pow2Int(k) + j : j \in (0 - 2)..2 } : k \in 8..23 }
Pow2Int(k) == IF k = 0 THEN 1 ELSE 2 * Pow2Int(k - 1)
Init == m \in Grid /\ d \in (0 - 128)..127 /\ t \in BOOLEAN /\ out = 0
Next == UNCHANGED <<m, d, t, out>>
Agree == ToInt(NextFeeMult(N(m), d, t)) = I!NextI(m, d, t)
=============================================================================

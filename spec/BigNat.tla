------------------------------- MODULE BigNat -------------------------------
(***************************************************************************)
(* Natural numbers of unbounded size for TLC, whose own integers are       *)
(* 32-bit.  A number is a little-endian sequence of limbs in 0..255 with   *)
(* no most-significant zero limb; zero is << >>.                           *)
(* Every operator is a pure function; nothing here is an action.           *)
(***************************************************************************)
EXTENDS Naturals, Sequences, Bitwise

BASE == 256

Limb(a, i) == IF i >= 1 /\ i <= Len(a) THEN a[i] ELSE 0

RECURSIVE Strip(_)
Strip(a) == IF a = <<>> THEN a
            ELSE IF a[Len(a)] = 0 THEN Strip(SubSeq(a, 1, Len(a) - 1)) ELSE a

IsNat(a) == /\ \A i \in 1..Len(a) : a[i] \in 0..(BASE-1)
            /\ (a = <<>> \/ a[Len(a)] # 0)

Zero == <<>>
IsZero(a) == a = <<>>

RECURSIVE FromInt(_)
FromInt(n) == IF n = 0 THEN <<>> ELSE <<n % BASE>> \o FromInt(n \div BASE)

RECURSIVE ToIntFrom(_, _)
ToIntFrom(a, i) == IF i > Len(a) THEN 0 ELSE a[i] + BASE * ToIntFrom(a, i + 1)
\* only for values known to be < 2^31
ToInt(a) == ToIntFrom(a, 1)

MaxI(x, y) == IF x > y THEN x ELSE y
MinI(x, y) == IF x < y THEN x ELSE y

\* ---- comparison -------------------------------------------------------
RECURSIVE CmpFrom(_, _, _)
CmpFrom(a, b, i) == IF i = 0 THEN 0
                    ELSE IF a[i] < b[i] THEN 0 - 1
                    ELSE IF a[i] > b[i] THEN 1
                    ELSE CmpFrom(a, b, i - 1)
Cmp(a, b) == IF Len(a) < Len(b) THEN 0 - 1
             ELSE IF Len(a) > Len(b) THEN 1
             ELSE CmpFrom(a, b, Len(a))
Lt(a, b)  == Cmp(a, b) < 0
Leq(a, b) == Cmp(a, b) <= 0
Gt(a, b)  == Cmp(a, b) > 0
Geq(a, b) == Cmp(a, b) >= 0
BN_Max(a, b) == IF Geq(a, b) THEN a ELSE b
BN_Min(a, b) == IF Leq(a, b) THEN a ELSE b

\* ---- carry propagation over a sequence of column values (each < 2^30) ---
RECURSIVE Carry(_, _, _)
Carry(cols, i, c) ==
    IF i > Len(cols)
    THEN (IF c = 0 THEN <<>> ELSE <<c % BASE>> \o Carry(cols, i, c \div BASE))
    ELSE LET s == cols[i] + c IN <<s % BASE>> \o Carry(cols, i + 1, s \div BASE)

Add(a, b) == Strip(Carry([i \in 1..MaxI(Len(a), Len(b)) |-> Limb(a, i) + Limb(b, i)], 1, 0))

\* a - b, defined only for a >= b
RECURSIVE SubFrom(_, _, _, _)
SubFrom(a, b, i, borrow) ==
    IF i > Len(a) THEN <<>>
    ELSE LET d == a[i] - Limb(b, i) - borrow
         IN IF d < 0 THEN <<d + BASE>> \o SubFrom(a, b, i + 1, 1)
                     ELSE <<d>> \o SubFrom(a, b, i + 1, 0)
Sub(a, b) == Strip(SubFrom(a, b, 1, 0))
\* saturating subtraction
Monus(a, b) == IF Geq(a, b) THEN Sub(a, b) ELSE Zero

\* ---- multiplication ------------------------------------------------------
MulSmall(a, k) == \* k < 2^22
    IF k = 0 THEN <<>> ELSE Strip(Carry([i \in 1..Len(a) |-> a[i] * k], 1, 0))

RECURSIVE SumProd(_, _, _, _, _)
SumProd(a, b, k, i, acc) ==
    IF i > Len(a) \/ i > k THEN acc
    ELSE SumProd(a, b, k, i + 1,
                 IF k + 1 - i <= Len(b) THEN acc + a[i] * b[k + 1 - i] ELSE acc)
\* column sums are < 2^16 * min(Len) -- fine up to thousands of limbs
Mul(a, b) == IF a = <<>> \/ b = <<>> THEN <<>>
             ELSE Strip(Carry([k \in 1..(Len(a) + Len(b) - 1) |-> SumProd(a, b, k, 1, 0)], 1, 0))

\* ---- shifts ----------------------------------------------------------------
ShlLimbs(a, n) == IF a = <<>> THEN a ELSE [i \in 1..n |-> 0] \o a
ShrLimbs(a, n) == IF n >= Len(a) THEN <<>> ELSE SubSeq(a, n + 1, Len(a))
Pow2Small(k) == \* 2^k for k in 0..7
    CASE k = 0 -> 1 [] k = 1 -> 2 [] k = 2 -> 4 [] k = 3 -> 8
      [] k = 4 -> 16 [] k = 5 -> 32 [] k = 6 -> 64 [] k = 7 -> 128
Shl(a, bits) == ShlLimbs(MulSmall(a, Pow2Small(bits % 8)), bits \div 8)
Pow2(k) == Shl(<<1>>, k)

\* ---- division by a small constant (k < 2^22) ------------------------------
RECURSIVE DivSmallFrom(_, _, _, _)
\* walks from the most significant limb; returns <<quotient limbs (MS first reversed), rem>>
DivSmallFrom(a, k, i, rem) ==
    IF i = 0 THEN <<<<>>, rem>>
    ELSE LET cur == rem * BASE + a[i]
             r   == DivSmallFrom(a, k, i - 1, cur % k)
         IN <<r[1] \o <<cur \div k>>, r[2]>>
DivModSmall(a, k) == LET r == DivSmallFrom(a, k, Len(a), 0) IN <<Strip(r[1]), r[2]>>
DivSmall(a, k) == DivModSmall(a, k)[1]
Shr(a, bits) == DivSmall(ShrLimbs(a, bits \div 8), Pow2Small(bits % 8))

\* ---- general division ------------------------------------------------------
\* Quotient digit d = floor(cur / b) where cur < b*BASE, b # 0, Len(b) >= 1.
\* Estimate from the three leading limbs of cur (aligned to b's two leading limbs),
\* then correct downwards; the estimate is never too small and at most 2 too large
\* when Len(b) >= 2, exact when Len(b) = 1.
LeadTwo(b) == IF Len(b) = 1 THEN b[1] ELSE b[Len(b)] * BASE + b[Len(b) - 1]
RECURSIVE FixDown(_, _, _)
FixDown(cur, b, d) == IF d = 0 \/ Leq(MulSmall(b, d), cur) THEN d ELSE FixDown(cur, b, d - 1)
QDigit(cur, b) ==
    LET n  == Len(b)
        \* value of cur's limbs n-1 .. n+1 (1-based positions), i.e. cur \div BASE^(n-2)
        c3 == IF n = 1 THEN Limb(cur, 2) * BASE + Limb(cur, 1)
              ELSE (Limb(cur, n + 1) * BASE + Limb(cur, n)) * BASE + Limb(cur, n - 1)
        est == MinI(BASE - 1, c3 \div LeadTwo(b))
    IN FixDown(cur, b, est)

RECURSIVE DivFrom(_, _, _, _)
\* returns <<quotient limbs little-endian (unstripped), remainder>>
DivFrom(a, b, i, rem) ==
    IF i = 0 THEN <<<<>>, rem>>
    ELSE LET cur == Strip(<<a[i]>> \o rem)          \* rem*BASE + a[i]
             d   == IF Lt(cur, b) THEN 0 ELSE QDigit(cur, b)
             r   == DivFrom(a, b, i - 1, IF d = 0 THEN cur ELSE Sub(cur, MulSmall(b, d)))
         IN <<r[1] \o <<d>>, r[2]>>
\* defined only for b # 0
DivMod(a, b) == IF Lt(a, b) THEN <<Zero, a>>
                ELSE IF Len(b) = 1 THEN LET r == DivModSmall(a, b[1]) IN <<r[1], FromInt(r[2])>>
                ELSE LET r == DivFrom(a, b, Len(a), <<>>) IN <<Strip(r[1]), r[2]>>
Div(a, b) == DivMod(a, b)[1]
Mod(a, b) == DivMod(a, b)[2]
\* floor(a*b/c)
MulDiv(a, b, c) == Div(Mul(a, b), c)

\* ---- integer square root (Newton from a 12-bit-accurate over-estimate) ----
RECURSIVE ISqrtSmall(_, _)
\* smallest x with x*x > n, minus 0: returns ceil-ish over-estimate for n < 2^24
ISqrtSmall(n, x) == IF x * x > n THEN x ELSE ISqrtSmall(n, x + 1)
RECURSIVE ISqrtBin(_, _, _)
ISqrtBin(n, lo, hi) == \* largest x in lo..hi with x*x <= n
    IF lo = hi THEN lo
    ELSE LET mid == (lo + hi + 1) \div 2
         IN IF mid * mid <= n THEN ISqrtBin(n, mid, hi) ELSE ISqrtBin(n, lo, mid - 1)
RECURSIVE SqrtIter(_, _)
SqrtIter(a, x) == LET y == Shr(Add(x, Div(a, x)), 1)
                  IN IF Geq(y, x) THEN x ELSE SqrtIter(a, y)
Sqrt(a) ==
    IF a = <<>> THEN <<>>
    ELSE IF Len(a) <= 3 THEN FromInt(ISqrtBin(ToInt(a), 0, 4095))
    ELSE LET n    == Len(a)
             \* take the top 2 or 3 limbs so that an even number of limbs is dropped
             drop == IF (n - 3) % 2 = 0 THEN n - 3 ELSE n - 2
             top  == ToInt(SubSeq(a, drop + 1, n))               \* < 2^24
             x0   == ShlLimbs(FromInt(ISqrtBin(top, 0, 4095) + 1), drop \div 2)  \* >= sqrt(a)
         IN SqrtIter(a, x0)

U128MAX == Sub(Pow2(128), <<1>>)

\* ---- fixed-width words (MelVM) ---------------------------------------------
Wrap(a, w)  == Strip(SubSeq(a, 1, MinI(Len(a), w)))
Pad(a, w)   == [i \in 1..w |-> Limb(a, i)]
AddW(a, b, w) == Wrap(Add(a, b), w)
MulW(a, b, w) == Wrap(Mul(a, b), w)
\* a - b mod 2^(8w)
SubW(a, b, w) == IF Geq(a, b) THEN Sub(a, b)
                 ELSE Sub(Add(a, ShlLimbs(<<1>>, w)), b)
AndW(a, b, w) == Strip([i \in 1..w |-> Limb(a, i) & Limb(b, i)])
OrW(a, b, w)  == Strip([i \in 1..w |-> Limb(a, i) | Limb(b, i)])
XorW(a, b, w) == Strip([i \in 1..w |-> Limb(a, i) ^^ Limb(b, i)])
NotW(a, w)    == Strip([i \in 1..w |-> (BASE - 1) - Limb(a, i)])
ShlW(a, bits, w) == Wrap(Shl(a, bits), w)
\* big-endian fixed-width byte string <-> number
ToBytesBE(a, w) == [i \in 1..w |-> Limb(a, w + 1 - i)]
FromBytesBE(bs) == Strip([i \in 1..Len(bs) |-> bs[Len(bs) + 1 - i]])
\* number of significant bits
RECURSIVE BitsOfLimb(_)
BitsOfLimb(x) == IF x = 0 THEN 0 ELSE 1 + BitsOfLimb(x \div 2)
BitLen(a) == IF a = <<>> THEN 0 ELSE 8 * (Len(a) - 1) + BitsOfLimb(a[Len(a)])
=============================================================================

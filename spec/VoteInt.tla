------------------------------- MODULE VoteInt -------------------------------
(***************************************************************************)
(* The confirmation threshold of Consensus.tla over mathematical integers, *)
(* for Apalache: C14's arithmetic for EVERY total voting power up to       *)
(* 2^128 - 1 and every pair of signer sets (an unbounded complement of     *)
(* MC_Consensus' enumeration of small stake tables).                        *)
(*   t  total active voting power (> 0), p1 / p2 the power of two signer   *)
(*   sets, c their common part; q a superset of the first set.             *)
(* Optional extra: never gates a verdict.                                  *)
(***************************************************************************)
EXTENDS Integers

VARIABLES
    \* @type: Int;
    t,
    \* @type: Int;
    p1,
    \* @type: Int;
    p2,
    \* @type: Int;
    c,
    \* @type: Int;
    q

P64 == 65536 * 65536 * 65536 * 65536
U128 == P64 * P64 - 1
\* the rule of Consensus!Confirms (signatures aside): strictly more than two thirds
Conf(p, tt) == 3 * p > 2 * tt

Init == /\ t \in Int /\ t > 0 /\ t <= U128
        /\ p1 \in Int /\ p1 >= 0 /\ p1 <= t
        /\ p2 \in Int /\ p2 >= 0 /\ p2 <= t
        /\ c \in Int /\ c >= 0 /\ c <= p1 /\ c <= p2 /\ p1 + p2 - c <= t     \* the two sets live in one stake table
        /\ q \in Int /\ q >= p1 /\ q <= t
Next == UNCHANGED <<t, p1, p2, c, q>>

\* C14's two clauses as the statement words them (two thirds as a fraction of the total)
C14_Never == (3 * p1 < 2 * t) => ~Conf(p1, t)
C14_Always == (3 * p1 > 2 * t) => Conf(p1, t)
\* the same threshold written with a floor division: no rounding drift (the defect "total > present / 2 * 3" was one)
C14_NoDrift == Conf(p1, t) <=> (p1 > (2 * t) \div 3)
\* the empty proof and any proof below two thirds never confirm; unanimity always does
C14_Ends == ~Conf(0, t) /\ Conf(t, t)
\* adding signers never un-confirms
C14_Monotone == Conf(p1, t) => Conf(q, t)
\* what the threshold is for: two confirming sets share more than one third of the voting power (so no two conflicting
\* states are confirmed unless more than a third of the stake signs both)
C14_Overlap == (Conf(p1, t) /\ Conf(p2, t)) => 3 * c > t
C14 == C14_Never /\ C14_Always /\ C14_NoDrift /\ C14_Ends /\ C14_Monotone /\ C14_Overlap
\* deliberately wrong: at exactly two thirds the rule does not confirm (Apalache must refute "at least two thirds confirms")
Wrong_AtLeast == (3 * p1 >= 2 * t) => Conf(p1, t)
=============================================================================

------------------------------ MODULE Consensus ------------------------------
(***************************************************************************)
(* Confirmation of a sealed state by a consensus proof (C14).              *)
(* stakes: sequence of [pk, start, end, syms] (BigNat fields);             *)
(* signers: sequence of [pk, valid] with distinct pk (a proof is a map     *)
(* from key to signature; `valid` is the oracle fact "this signature       *)
(* verifies against the state's header hash under this key").              *)
(***************************************************************************)
EXTENDS BigNat, SequencesExt, TLC

RangeQ(s) == {s[i] : i \in DOMAIN s}
SumQ(s, f(_)) == FoldSeq(LAMBDA x, acc : Add(f(x), acc), Zero, s)
ActiveIn(st, e) == Leq(st.start, FromInt(e)) /\ Gt(st.end, FromInt(e))
VotesOf(stakes, e, pk) == SumQ(stakes, LAMBDA st : IF st.pk = pk /\ ActiveIn(st, e) THEN st.syms ELSE Zero)
Total(stakes, e) == SumQ(stakes, LAMBDA st : IF ActiveIn(st, e) THEN st.syms ELSE Zero)
Present(stakes, e, signers) == SumQ(signers, LAMBDA sg : VotesOf(stakes, e, sg.pk))
AllValid(signers) == \A sg \in RangeQ(signers) : sg.valid
\* the specification's rule: every signature valid, and strictly more than two thirds of the active voting power
Confirms(stakes, e, signers) == AllValid(signers) /\ Gt(MulSmall(Present(stakes, e, signers), 3), MulSmall(Total(stakes, e), 2))
\* what the property statement allows an implementation to answer: [must, mustNot]
MustConfirm(stakes, e, signers) == Total(stakes, e) # Zero /\ AllValid(signers) /\ Gt(MulSmall(Present(stakes, e, signers), 3), MulSmall(Total(stakes, e), 2))
MustNotConfirm(stakes, e, signers) == Total(stakes, e) # Zero /\ (~AllValid(signers) \/ Lt(MulSmall(Present(stakes, e, signers), 3), MulSmall(Total(stakes, e), 2)))
=============================================================================

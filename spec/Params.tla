------------------------------- MODULE Params -------------------------------
(***************************************************************************)
(* Protocol constants.  Trace validation uses these definitions as they    *)
(* are (the real values); exhaustive models override some of them with     *)
(* small values in their .cfg files ( X <- MC_X ).                         *)
(***************************************************************************)
EXTENDS Naturals

STAKE_EPOCH       == 200000
OUTPUT_PENALTY    == 1000      \* weight per output / refund per input
FEE_SHIFT         == 16        \* min fee = weight * multiplier >> FEE_SHIFT ; proposer base reward = fee pool >> FEE_SHIFT
MAXCOIN_BITS      == 120       \* MAX_COINVAL = 2^120
TIP_901           == 42700
TIP_902           == 180000
TIP_906           == 830000
TIP_909           == 950000
TIP_909A          == 1048000
TESTNET_TIPS      == 500       \* on Testnet every TIP activates at this height
LEGACY_STAKE_REG  == 500000    \* Mainnet/Testnet below: stake transactions are not examined
LEGACY_STAKE_LOCK == 900000    \* Mainnet/Testnet below: outputs of stake transactions are not locked
LEGACY_DEPOSIT    == 978392    \* Mainnet/Testnet below: deposits keep their second coin
MIN_MINT_AGE      == 100       \* Mainnet: an ERG mint must spend a coin at least this old
BUILTIN_RESERVE   == 1000      \* built-in pools start with BUILTIN_RESERVE * 10^6 on both sides
TIP909_REWARD_BITS == 20       \* per-block SYM subsidy 2^20 ...
TIP909_HALVING    == 1000000   \* ... halving every so many blocks
NET_MAINNET == 255
NET_TESTNET == 1
NET_CUSTOM08 == 8
KIND_NORMAL == 0
KIND_STAKE == 16
KIND_DOSCMINT == 80
KIND_SWAP == 81
KIND_DEPOSIT == 82
KIND_WITHDRAW == 83
KIND_FAUCET == 255
DESTROY_COV == "0000000000000000000000000000000000000000000000000000000000000000"
GRANDFATHERED_FAUCET == "30a60b20830f000f755b70c57c998553a303cc11f8b1f574d5e9f7e26b645d8b"
=============================================================================

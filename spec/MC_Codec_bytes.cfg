CONSTANTS W = 32  MaxBytes = 2  Mode = "bytes"
INIT Init
NEXT Next
CHECK_DEADLOCK FALSE
INVARIANTS DecodeRoundTrip

---------------------------- MODULE Trace_Ledger ----------------------------
(***************************************************************************)
(* Trace validator for ledger histories recorded from the real code        *)
(* (harness `ledger`, `chain`, `stake`, ...).  One record = one public     *)
(* call with its arguments, result, and the full projection of the state   *)
(* before and after.  For every record the specification's operators are   *)
(* evaluated on the observed pre-state and the monitors below compare the  *)
(* observed outcome with what the properties demand.                       *)
(*   VERDICT lines: property, trace line, clause, kf (name of the known-   *)
(*   finding deviation operator that explains it, or "").                  *)
(*   NOTE lines: conformance differences no property covers.               *)
(***************************************************************************)
EXTENDS Seal, Json, IOUtils

Rec == ndJsonDeserialize(IOEnv.TRACE)
VARIABLES l, agree

V(p, c, kf) == [p |-> p, c |-> c, kf |-> kf]
PairsFn(ps) == [k \in {p[1] : p \in RangeS(ps)} |-> (CHOOSE p \in RangeS(ps) : p[1] = k)[2]]
SeqSet(s) == RangeS(s)

\* ---- invariants evaluated on every observed state ------------------------------------------------
StateVerdicts(st) ==
    LET cm == CoinMap(st) IN
       (IF Tip906(st.net, st.height) /\ ObservedCounts(st) # CountsOf(cm)
        THEN {V("C20", "coin counts differ from the number of unspent coins per covenant hash", ""),
              V("C07", "the coin tree holds count entries that are not determined by the coins: its root is not a function of the coin contents alone", "")} ELSE {})
  \cup (IF ~Tip906(st.net, st.height) /\ st.counts # <<>> THEN {V("C20", "count entries before TIP-906", "")} ELSE {})
  \cup (IF st.unknown # <<>> \/ st.unknownPools # <<>> THEN {V("C02", "state trees hold entries that are neither known coins, counts nor pools", "")} ELSE {})
  \cup (IF Len(st.coins) # Cardinality(DOMAIN cm) THEN {V("C02", "duplicate coin ids in the coin tree", "")} ELSE {})

\* liquidity tokens in coins never exceed the pool's recorded liquidity; built-ins exist with reserves (sealed states)
PoolVerdicts(st) ==
    LET cm == CoinMap(st) IN
       UNION { IF Gt(SupplyCoins(cm, p.key.liq), p.liqs)
               THEN {V("C16", "liquidity tokens in unspent coins exceed the pool's recorded liquidity", "")} ELSE {} : p \in RangeS(st.pools) }
  \cup (IF \E k \in {K_MS, K_EM} \cup (IF Tip902(st.net, st.height) THEN {K_ES} ELSE {}) :
              ~\E p \in RangeS(st.pools) : PoolKeyOf(p) = k /\ p.l # Zero /\ p.r # Zero
        THEN {V("C16", "a built-in pool is missing or has an empty reserve after sealing", "")} ELSE {})
  \cup (IF \E p \in RangeS(st.pools) : ~BytesLess(p.key.lb, p.key.rb) \/ p.key.l = "NEW" \/ p.key.r = "NEW"
        THEN {V("C15", "a pool exists under a non-canonical or non-concrete name", "")} ELSE {})

\* ---- batch ------------------------------------------------------------------------------------------
Ctx(r) == [lastHeader |-> r.lastHeader, bytesOf |-> PairsFn(r.bytesOf), hdrs |-> PairsFn(r.hdrs)]
\* deviation operator: the implementation validates a covenant only for the first input carrying its hash
FirstOfCov(b, cm, h, tx, i) == \A j \in 1..(i - 1) : Lookup(b, cm, h, tx.ins[j].id).cov # Lookup(b, cm, h, tx.ins[i].id).cov
KF_CovCache(b, cm, h, ctx) ==
    \A i \in DOMAIN b : \A j \in DOMAIN b[i].ins : FirstOfCov(b, cm, h, b[i], j) => CovOK(b, cm, h, b[i], j, ctx.lastHeader, ctx.bytesOf)

AcceptVerdicts(b, pre, res, ctx, what) ==
    LET c   == Clauses(b, pre, ctx)
        acc == AcceptOf(c)
        ok  == res = "ok"
        cm  == CoinMap(pre)
        h   == pre.height
    IN (IF res = "panic" THEN {V("C09", what \o " panicked", IF \E i \in DOMAIN b : ~NoOutputOverflow(b[i]) THEN "KF-total-outputs-overflow" ELSE "")} ELSE {})
  \cup (IF ok /\ ~c.wellformed THEN {V("C02", "accepted a transaction that is not well-formed (bounds)", ""), V("C09", "accepted a transaction whose outputs overflow", "")} ELSE {})
  \cup (IF ok /\ ~c.resolvable THEN {V("C02", "accepted a batch with an input that is neither unspent nor created in the batch", "")} ELSE {})
  \cup (IF ok /\ ~c.nodouble THEN {V("C02", "accepted a batch that consumes a coin twice", "")} ELSE {})
  \cup (IF ok /\ c.resolvable /\ c.wellformed /\ ~c.balanced THEN {V("C02", "accepted an unbalanced transaction", ""), V("C01", "accepted an unbalanced transaction", "")} ELSE {})
  \cup (IF ok /\ c.resolvable /\ ~c.covenants
        THEN {V("C04", "accepted although a covenant is missing, undecodable, fails or is false in the input's own environment",
                IF KF_CovCache(b, cm, h, ctx) THEN "KF-covenant-cache" ELSE "")} ELSE {})
  \cup (IF ok /\ ~c.fees THEN {V("C05", "accepted a transaction paying less than the minimum fee", "")} ELSE {})
  \cup (IF ok /\ ~c.unlocked THEN {V("C13", "accepted a spend of a coin locked by a stake", "")} ELSE {})
  \* the fee is how a covenant's weight is charged (C11: "its weight - the quantity the spender is charged for")
  \cup (IF ok /\ ~c.fees /\ \E i \in DOMAIN b : Lt(b[i].fee, MinFee(b[i], pre.feeMult)) /\ \E j \in DOMAIN b[i].covs : CovWeight(b[i].covs[j]) # Zero
        THEN {V("C11", "accepted a spend that does not pay for the weight of the covenants it carries", "")} ELSE {})
  \* C02's acceptance condition names the same three clauses: authorised, unlocked, fee-paying
  \cup (IF ok /\ c.resolvable /\ (~c.covenants \/ ~c.fees \/ ~c.unlocked)
        THEN {V("C02", "accepted a batch with a member that is not authorised, not unlocked or not fee-paying", "")} ELSE {})
  \* the deliberate legacy rule of Mainnet/Testnet below LEGACY_STAKE_LOCK: outputs of stake transactions are not locked
  \cup (IF ok /\ ~StakeLockActive(pre.net, h) /\ \E i \in DOMAIN b : \E j \in DOMAIN b[i].ins : b[i].ins[j].id[1] \in DOMAIN StakeMap(pre)
        THEN {V("C13", "accepted a spend of a coin locked by a stake", "KF-legacy-stake-lock-window")} ELSE {})
  \cup (IF ok /\ ~c.stakeshape THEN {V("C13", "accepted a stake transaction with undecodable data or a non-SYM first output", "")} ELSE {})
  \cup (IF ok /\ ~c.faucet THEN {V("C19", "accepted a faucet on mainnet or a duplicate faucet", "")} ELSE {})
  \* history-level: the very faucet was accepted at an ancestor of this state (a fact of the recorded history, whatever the state's markers say)
  \cup (IF ok /\ \E i \in DOMAIN b : b[i].kind = KIND_FAUCET /\ b[i].seenFaucet /\ ~Grandfathered(b[i])
        THEN {V("C19", "a faucet transaction was accepted a second time in the same history", "")} ELSE {})
  \cup (IF ok /\ c.resolvable /\ c.wellformed /\ ~c.mint THEN {V("C18", "accepted an ERG mint the rules forbid (proof, age, seed header or reward bound)", "")} ELSE {})
  \cup (IF res = "err" /\ acc
        THEN {V("C04", "rejected although every clause of the specification holds (covenants approve, fees paid, balanced)", "")}
             \cup (IF \E i \in DOMAIN b : b[i].fee = MinFee(b[i], pre.feeMult) THEN {V("C05", "rejected a transaction paying exactly the minimum fee", "")} ELSE {})
        ELSE {})

\* the state after an accepted batch
PostVerdicts(b, pre, post, ctx) ==
    LET acc == AcceptOf(Clauses(b, pre, ctx))
        ok  == TRUE
        cm  == CoinMap(pre)
        h   == pre.height
        pcm == CoinMap(post)
        grand == \E i \in DOMAIN b : Grandfathered(b[i]) /\ b[i].kind = KIND_FAUCET
        denoms == DenomsOf(pre) \cup DenomsOf(post) \cup UNION {{OutDenom(b[i], b[i].outs[j]) : j \in DOMAIN b[i].outs} : i \in DOMAIN b}
    IN (IF ok /\ acc /\ pcm # NextCoins(b, cm, h)
        THEN {V("C02", "coins after the batch are not: previous - inputs + outputs not sent to the destruction address",
                IF pcm = NextCoinsSeq(b, 1, cm, h) THEN "KF-out-of-order-spend" ELSE "")} ELSE {})
  \cup (IF ok /\ acc /\ (post.feePool # SatAdd(pre.feePool, FeeSum(b, pre.feeMult)) \/ post.tips # SatAdd(pre.tips, TipSum(b, pre.feeMult)))
        THEN {V("C05", "fee pool / tips are not increased by exactly the minimum fees / the remainders", "")} ELSE {})
  \cup (IF ok /\ acc /\ StakeMap(post) # Merge(StakeMap(pre), NewStakes(b, pre.net, h))
        THEN {V("C13", "registered stakes after the batch differ from: previous + consistent stake transactions", "")} ELSE {})
  \cup (IF ok /\ acc /\ post.dosc # NewSpeed(b, cm, h, pre.dosc) THEN {V("C18", "DOSC speed is not the maximum of the previous value and the speeds shown in the batch", "")} ELSE {})
  \cup (IF ok /\ acc /\ SeqSet(post.txset) # SeqSet(pre.txset) \cup {b[i].id : i \in DOMAIN b}
        THEN {V("C07", "the block's transaction set is not previous + batch", "")} ELSE {})
  \cup (IF ok /\ (post.height # pre.height \/ post.net # pre.net \/ post.pools # pre.pools \/ post.hist # pre.hist)
        THEN {V("C02", "a batch changed height, network, pools or history", "")} ELSE {})
  \cup (IF ok /\ post.feeMult # pre.feeMult THEN {V("C17", "a batch changed the fee multiplier", "")} ELSE {})
  \* ---- conservation, recomputed from the two observed states
  \cup (IF ok /\ \E d \in denoms : Gt(Supply(post, d), Add(Supply(pre, d), IssuedByBatch(b, pre, d)))
        THEN {V("C01", "a batch left more of some denomination in existence than the issuance rules allow",
                IF grand THEN "KF-grandfathered-faucet" ELSE "")} ELSE {})

BatchVerdicts(r) ==
       AcceptVerdicts(r.txs, r.pre, r.res, Ctx(r), "apply_tx_batch")
  \cup (IF r.res = "ok" THEN PostVerdicts(r.txs, r.pre, r.post, Ctx(r)) ELSE {})
  \cup (IF r.res # "ok" /\ r.post # r.pre THEN {V("C02", "a rejected batch changed the state", "")} ELSE {})
  \cup StateVerdicts(r.post)

\* ---- seal ---------------------------------------------------------------------------------------------
SealCore(pre, action, txs, rewardid, post) ==
    LET e   == SealSpec(pre, action, txs, rewardid)
        pcm == CoinMap(post)
        cm  == CoinMap(pre)
        ppm == PoolMap(post)
        h   == pre.height
        nonreq == {tx \in RangeS(txs) : ~(tx.kind \in {KIND_SWAP, KIND_DEPOSIT, KIND_WITHDRAW} /\ KeyOK(tx))}
        untouched == \A tx \in nonreq : \A j \in CreatedIdx(tx) :
                        (<<tx.id, j - 1>> \in DOMAIN cm) => (<<tx.id, j - 1>> \in DOMAIN pcm /\ pcm[<<tx.id, j - 1>>] = cm[<<tx.id, j - 1>>])
        defined == e.defined
        coinsNoReward == RestrictTo(pcm, DOMAIN pcm \ {rewardid})
        expNoReward == RestrictTo(e.cm, DOMAIN e.cm \ {rewardid})
        poolsEq == DOMAIN ppm = DOMAIN e.pools /\ \A k \in DOMAIN ppm : ppm[k].l = e.pools[k].l /\ ppm[k].r = e.pools[k].r /\ ppm[k].liqs = e.pools[k].liqs
        denoms == DenomsOf(pre) \cup DenomsOf(post)
        \* the reserves of built-in pools created by this seal are part of the genesis supply (created once, by design)
        newBuiltins == {k \in {K_MS, K_EM, K_ES} : k \notin DOMAIN PoolMap(pre) /\ k \in DOMAIN e.pools}
        builtin(d) == SumBig(SetToSeq(newBuiltins), LAMBDA k : Add(IF k[1] = d THEN DefPool.l ELSE Zero, IF k[2] = d THEN DefPool.r ELSE Zero))
        issued(d) == Add(Add(Add(IF d = "MEL" THEN e.pegMel ELSE Zero, IF d = "SYM" THEN Add(e.pegSym, e.subsidySym) ELSE Zero),
                             IF d \in DOMAIN e.minted THEN e.minted[d] ELSE Zero), builtin(d))
    IN (IF ~untouched THEN {V("C15", "sealing changed an output of a transaction that is not a swap / deposit / withdrawal naming a pool", "")} ELSE {})
  \cup (IF defined /\ coinsNoReward # expNoReward
        THEN {V("C15", "coins after sealing differ from the pro-rata settlement of the block's genuine requests", "")} ELSE {})
  \cup (IF defined /\ ~poolsEq THEN {V("C15", "pool reserves / liquidity after sealing differ from the settlement of the block's requests, pegging and subsidy", "")} ELSE {})
  \cup (IF defined /\ DOMAIN ppm = DOMAIN e.pools /\ \E k \in DOMAIN ppm : ppm[k].liqs # e.pools[k].liqs
        THEN {V("C16", "a pool's recorded liquidity after sealing is not: previous + minted by the block's deposits - redeemed by its withdrawals", "")} ELSE {})
  \cup (IF defined /\ \E c \in DOMAIN pcm \cap DOMAIN e.cm : pcm[c] # e.cm[c] /\ \E p \in RangeS(post.pools) : p.key.liq \in {pcm[c].denom, e.cm[c].denom}
        THEN {V("C16", "liquidity tokens handed to a depositor differ from the floor of the pro-rata share of the liquidity minted", "")} ELSE {})
  \cup (IF defined /\ poolsEq /\ \E k \in DOMAIN ppm : ppm[k].acc # e.pools[k].acc THEN {V("NOTE", "price accumulator differs", "")} ELSE {})
  \cup (IF action.some /\ (rewardid \notin DOMAIN pcm \/ (defined /\ pcm[rewardid] # e.cm[rewardid]))
        THEN {V("C05", "proposer reward coin is not 1/65536 of the fee pool plus all tips at the reward address", "")} ELSE {})
  \cup (IF ~action.some /\ rewardid \in DOMAIN pcm /\ rewardid \notin DOMAIN cm THEN {V("C05", "a reward coin appeared without a proposer action", "")} ELSE {})
  \cup (IF defined /\ (post.feePool # e.feePool \/ (action.some /\ post.tips # Zero))
        THEN {V("C05", "fee pool / tips after sealing are not: previous + subsidy - reward", "")} ELSE {})
  \cup (IF post.feeMult # e.feeMult THEN {V("C17", "fee multiplier after sealing is not: previous + trunc(max(m/128, 2) * delta / 128)", "")} ELSE {})
  \cup (IF Gt(Sub(BN_Max(post.feeMult, pre.feeMult), BN_Min(post.feeMult, pre.feeMult)), BN_Max(Shr(pre.feeMult, 7), N(2)))
        THEN {V("C17", "fee multiplier moved by more than 1/128 of its value (or 2 units)", "")} ELSE {})
  \cup (IF post.dosc # pre.dosc \/ post.height # pre.height \/ post.net # pre.net \/ StakeMap(post) # StakeMap(pre) \/ SeqSet(post.txset) # SeqSet(pre.txset)
        THEN {V("C07", "sealing changed DOSC speed, height, network, stakes or the transaction set", "")} ELSE {})
  \cup (IF \E d \in denoms : Gt(Supply(post, d), Add(Supply(pre, d), issued(d)))
        THEN {V("C01", "sealing left more of some denomination in existence than subsidy, peg adjustment and minted liquidity allow",
                \* the deliberate legacy rule of Mainnet/Testnet below LEGACY_DEPOSIT: a deposit keeps its second coin
                IF LegacyNet(pre.net) /\ h < LEGACY_DEPOSIT
                   /\ \A d \in denoms : Leq(Supply(post, d), Add(Add(Supply(pre, d), issued(d)), IF d \in DOMAIN e.legacyKept THEN e.legacyKept[d] ELSE Zero))
                THEN "KF-legacy-deposit-window" ELSE "")} ELSE {})

HeaderVerdicts(st) ==
    LET hd == st.header IN
       (IF hd.height # st.height \/ hd.net # st.net \/ hd.feePool # st.feePool \/ hd.feeMult # st.feeMult \/ hd.dosc # st.dosc
           \/ hd.coins # st.roots.coins \/ hd.pools # st.roots.pools \/ hd.hist # st.roots.history
        THEN {V("C07", "header fields do not equal the state's height / network / fee pool / fee multiplier / DOSC speed / tree roots", "")} ELSE {})
  \cup (IF st.height > 0 /\ ((st.height - 1) \notin DOMAIN HistMap(st) \/ hd.prev # HistMap(st)[st.height - 1])
        THEN {V("C07", "previous-hash is not the hash of the parent header held in the history tree", "")} ELSE {})
  \* (a lineage fabricated at a height keeps whatever older entries it was given: only the part grown since is exact)
  \cup (IF st.unknownHist # 0 \/ (st.histBase = 0 /\ DOMAIN HistMap(st) # 0..(st.height - 1))
           \/ ~(st.histBase..(st.height - 1) \subseteq DOMAIN HistMap(st)) \/ \E x \in DOMAIN HistMap(st) : x >= st.height
        THEN {V("C07", "the history tree does not hold exactly the ancestor heights", "")} ELSE {})

SealVerdicts(r) ==
    IF r.res = "panic"
    THEN {V("C09", "seal panicked", ""), V("C15", "sealing did not complete", ""), V("C16", "sealing did not complete", "")}
    ELSE SealCore(r.pre, r.action, r.blocktxs, r.rewardid, r.post)
         \cup StateVerdicts(r.post) \cup PoolVerdicts(r.post) \cup HeaderVerdicts(r.post)
         \cup (IF SeqSet(r.pre.txset) # {tx.id : tx \in RangeS(r.blocktxs)} THEN {V("C07", "the block's transactions are not the accepted ones", "")} ELSE {})

\* ---- next_unsealed ------------------------------------------------------------------------------------------
NextVerdicts(r) ==
    IF r.res = "panic" THEN {V("C09", "next_unsealed panicked", "")}
    ELSE LET pre == r.pre  post == r.post  h == pre.height
             activates == Tip906(pre.net, h + 1) /\ ~Tip906(pre.net, h)
         IN (IF post.height # h + 1 \/ post.net # pre.net THEN {V("C07", "height is not parent + 1 or the network changed", "")} ELSE {})
       \cup (IF HistMap(post) # Merge(HistMap(pre), [x \in {h} |-> pre.header.hash]) \/ post.unknownHist # 0
             THEN {V("C07", "history after next_unsealed is not: previous + parent header at its height", "")} ELSE {})
       \cup (IF StakeMap(post) # UnlockOld(StakeMap(pre), Epoch(h + 1)) THEN {V("C13", "stakes after next_unsealed are not exactly the unexpired ones", "")} ELSE {})
       \cup (IF post.txset # <<>> THEN {V("C07", "a new block starts with transactions", "")} ELSE {})
       \cup (IF CoinMap(post) # CoinMap(pre) \/ post.pools # pre.pools \/ post.feePool # pre.feePool \/ post.feeMult # pre.feeMult \/ post.dosc # pre.dosc
             THEN {V("C07", "next_unsealed changed coins, pools, fee pool, fee multiplier or DOSC speed", "")} ELSE {})
       \cup (IF post.tips # Zero THEN {V("C08", "pending tips survive the block boundary (a state rebuilt from its block has none)", "KF-tips-survive"),
                                       V("C05", "tips of a block sealed without a proposer action are carried to a later block's proposer", "KF-tips-survive")} ELSE {})
       \cup (IF post.feePool # pre.feePool THEN {V("C05", "the fee pool changed at a block boundary", "")} ELSE {})
       \cup (IF ~activates /\ post.counts # pre.counts THEN {V("C20", "next_unsealed changed the coin counts", "")} ELSE {})
       \cup StateVerdicts(post)

\* ---- apply_block ---------------------------------------------------------------------------------------------
BlockVerdicts(r) ==
    IF r.res = "panic" THEN {V("C09", "apply_block panicked", ""), V("C06", "apply_block did not complete", "")}
    ELSE LET ok == r.res = "ok"
             ctx == Ctx(r)
             c == Clauses(r.txs, r.basis, ctx)
             acc == AcceptOf(c)
             must == acc /\ r.x.honestOk /\ r.x.honest = r.header.hash
         IN (IF ok /\ ~must THEN {V("C06", "accepted a block that is not the correct successor (" \o r.x.mut \o ")", "")} ELSE {})
       \cup (IF ~ok /\ must THEN {V("C06", "rejected the correct successor block (" \o r.x.mut \o ")", "")} ELSE {})
       \cup (IF ok /\ r.post.header.hash # r.header.hash THEN {V("C06", "the returned state's header is not the block's header", "")} ELSE {})
       \cup (IF ok THEN AcceptVerdicts(r.txs, r.basis, "ok", ctx, "apply_block") ELSE {})
       \* the returned state must be the result of applying the block's transactions and proposer action to the parent's successor and sealing
       \cup (IF ok /\ acc
             THEN LET b == r.txs
                      cm1 == NextCoins(b, CoinMap(r.basis), r.basis.height)
                      st1 == [r.basis EXCEPT !.coins = SeqOfCoinMap(cm1),
                                             !.feePool = SatAdd(r.basis.feePool, FeeSum(b, r.basis.feeMult)),
                                             !.tips = SatAdd(r.basis.tips, TipSum(b, r.basis.feeMult))]
                      e == SealSpec(st1, r.action, b, r.rewardid)
                      pcm == CoinMap(r.post)
                      ppm == PoolMap(r.post)
                  IN IF e.defined /\ (pcm # e.cm \/ r.post.feePool # e.feePool \/ r.post.feeMult # e.feeMult
                                      \/ DOMAIN ppm # DOMAIN e.pools \/ \E k \in DOMAIN ppm \cap DOMAIN e.pools : ppm[k].l # e.pools[k].l \/ ppm[k].r # e.pools[k].r \/ ppm[k].liqs # e.pools[k].liqs
                                      \/ StakeMap(r.post) # Merge(StakeMap(r.basis), NewStakes(b, r.basis.net, r.basis.height)))
                     THEN {V("C06", "the state returned by apply_block is not the result of applying the block's transactions and proposer action to the parent and sealing (" \o r.x.mut \o ")", "")}
                          \cup (IF r.post.feeMult # e.feeMult
                                THEN {V("C17", "the fee multiplier of the state returned by apply_block is not: previous + trunc(max(m/128, 2) * delta / 128) (" \o r.x.mut \o ")", "")} ELSE {})
                     ELSE {}
             ELSE {})
       \cup (IF ok THEN StateVerdicts(r.post) \cup PoolVerdicts(r.post) \cup HeaderVerdicts(r.post) ELSE {})

\* ---- restart ---------------------------------------------------------------------------------------------------
Forget(st) == [st EXCEPT !.tips = Zero]
RestartVerdicts(r) ==
    IF r.res = "panic" THEN {V("C09", "from_block panicked", ""), V("C08", "from_block did not complete", "")}
    ELSE (IF Forget(r.post) # Forget(r.pre) THEN {V("C08", "a state rebuilt from its block differs from the original (header, coins, pools, stakes, history, transactions or action)", "")} ELSE {})

\* genesis: the state realised from a configuration holds exactly the configured coin at the zero coin id, the configured fee pool,
\* multiplier and stakes, and nothing else (differences in fields no property speaks about are conformance notes)
InitVerdicts(r) ==
    LET post == r.post  cfg == r.cfg  cm == CoinMap(post) IN
       StateVerdicts(post)
  \cup (IF post.net # cfg.net \/ post.height # 0 \/ post.hist # <<>> THEN {V("C07", "a genesis state has the wrong network, a non-zero height or a history", "")} ELSE {})
  \cup (IF Cardinality(DOMAIN cm) # 1 \/ \E k \in DOMAIN cm : (cm[k].val # cfg.coin.val \/ cm[k].cov # cfg.coin.cov \/ cm[k].denom # cfg.coin.denom \/ cm[k].h # 0)
        THEN {V("C01", "a genesis state holds other coins than the configured initial coin", ""), V("C02", "a genesis state holds other coins than the configured initial coin", "")} ELSE {})
  \cup (IF post.feePool # cfg.feePool \/ post.tips # Zero THEN {V("C01", "a genesis state's fee pool / tips are not the configured fee pool / zero", "")} ELSE {})
  \cup (IF post.feeMult # cfg.feeMult THEN {V("C17", "a genesis state's fee multiplier is not the configured one", "")} ELSE {})
  \cup (IF {[tx |-> x.tx, pk |-> x.pk, start |-> x.start, end |-> x.end, syms |-> x.syms] : x \in RangeS(post.stakes)}
            # {[tx |-> x.tx, pk |-> x.pk, start |-> x.start, end |-> x.end, syms |-> x.syms] : x \in RangeS(cfg.stakes)}
        THEN {V("C13", "a genesis state's stakes are not the configured ones", "")} ELSE {})
  \cup (IF post.pools # <<>> \/ post.txset # <<>> \/ post.dosc # MICRO THEN {V("NOTE", "genesis pools / transactions / DOSC speed differ", "")} ELSE {})

\* ---- voting power as the stake set reports it (C13) --------------------------------------------------------------------
VotesVerdicts(r) ==
    LET sm == StakeMap(r.pre) IN
       (IF \E row \in RangeS(r.rows) : row.votes # Votes(sm, r.epoch, row.pk)
        THEN {V("C13", "a key's voting power is not the sum of its registered stakes with start <= epoch < end", "")} ELSE {})
  \cup (IF r.total # TotalVotes(sm, r.epoch) THEN {V("C13", "total voting power is not the sum of the stakes active in the epoch", "")} ELSE {})
  \* the TIP-911 commitment of the same stake set
  \cup (IF r.tip911.cur # TotalVotes(sm, r.epoch) \/ r.tip911.next # TotalVotes(sm, r.epoch + 1)
        THEN {V("C13", "the TIP-911 stake commitment's totals are not the voting power of this and the next epoch", "")} ELSE {})
  \cup (IF {x.tx : x \in RangeS(r.tip911.stakes)} # DOMAIN sm \/ Len(r.tip911.stakes) # Cardinality(DOMAIN sm)
           \/ (\E x \in RangeS(r.tip911.stakes) : (x.tx \in DOMAIN sm /\ x.syms # sm[x.tx].syms))
           \/ (\E i \in 1..(Len(r.tip911.stakes) - 1) : Gt(r.tip911.stakes[i].syms, r.tip911.stakes[i + 1].syms))
        THEN {V("C13", "the TIP-911 stake commitment does not list exactly the registered stakes ordered by size", ""),
              V("C07", "the TIP-911 stake commitment does not list exactly the registered stakes ordered by size", "")} ELSE {})
  \cup (IF ~r.tip911.proofsOk THEN {V("C07", "a prefix of the TIP-911 stake list does not verify against the commitment's Merkle root", "")} ELSE {})

\* ---- Merkle proofs (C07): rows [tree, kind, ok, n] tally what verify() returned ----------------------------------
\* genuine proofs (presence, absence, typed accessors, roots) must verify; every tampering must not
ProofVerdicts(r) ==
    { V("C07", "a genuine proof of " \o row.kind \o " in the " \o row.tree \o " tree does not verify against the header's root", "") :
        row \in {x \in RangeS(r.rows) : x.kind \in {"present", "absent", "typed-get", "typed-present", "root-is-header", "sorted-position"} /\ ~x.ok} }
    \cup { V("C07", "a tampered proof (" \o row.kind \o ") in the " \o row.tree \o " tree verifies", "") :
        row \in {x \in RangeS(r.rows) : x.kind \in {"tamper-value", "tamper-absent", "tamper-key", "tamper-root", "tamper-present"} /\ x.ok} }

Verdicts(r) ==
    CASE r.ev = "batch" -> BatchVerdicts(r)
      [] r.ev = "seal" -> SealVerdicts(r)
      [] r.ev = "next" -> NextVerdicts(r)
      [] r.ev = "block" -> BlockVerdicts(r)
      [] r.ev = "restart" -> RestartVerdicts(r)
      [] r.ev = "init" -> InitVerdicts(r)
      [] r.ev = "proofs" -> ProofVerdicts(r)
      [] r.ev = "jump" -> StateVerdicts(r.post)
      [] r.ev = "votes" -> VotesVerdicts(r)
      [] OTHER -> {}

\* ---- agreement claims: values that the properties require to be functions of their key over the whole trace ----
\* each claim is <<key, value, property, clause>>
Claims(r) == IF "claims" \in DOMAIN r THEN RangeS(r.claims) ELSE {}
ClaimVerdicts(r) == { V(c[3], c[4], "") : c \in {c \in Claims(r) : c[1] \in DOMAIN agree /\ agree[c[1]] # c[2]} }
AgreeNext(r) == [k \in DOMAIN agree \cup {c[1] : c \in Claims(r)} |->
                    IF k \in DOMAIN agree THEN agree[k] ELSE (CHOOSE c \in Claims(r) : c[1] = k)[2]]

Emit(v, r) == PrintT(ToJson([k |-> IF v.p = "NOTE" THEN "NOTE" ELSE "VERDICT", p |-> v.p, l |-> l, c |-> v.c, kf |-> v.kf, ev |-> r.ev, tag |-> r.tag]))

Init == l = 1 /\ agree = [x \in {} |-> ""]
Next == /\ l <= Len(Rec)
        /\ l' = l + 1
        /\ LET r == Rec[l] IN
           /\ \A v \in Verdicts(r) \cup ClaimVerdicts(r) : Emit(v, r)
           /\ agree' = AgreeNext(r)
Post == TLCGet("stats").diameter - 1 = Len(Rec)
=============================================================================

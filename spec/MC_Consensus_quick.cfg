CONSTANTS MaxStakes = 2  Inverted = FALSE
INIT Init
NEXT Next
CHECK_DEADLOCK FALSE
INVARIANTS C14_OnlyValidMajority C14_MajorityConfirms C14_EmptyNeverConfirms C14_UnanimousConfirms C14_Monotone

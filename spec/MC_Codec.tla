------------------------------ MODULE MC_Codec ------------------------------
(***************************************************************************)
(* Exhaustive check that the specification's codec is a bijection:         *)
(* every byte string of length <= MaxBytes (each an initial state), and    *)
(* every instruction list of length <= 2 over a representative universe.   *)
(***************************************************************************)
EXTENDS MelVM, Codec, FiniteSets

CONSTANTS MaxBytes, Mode      \* Mode = "bytes" | "ops"

N(i) == FromInt(i)
Strings == UNION { [1..n -> 0..255] : n \in 0..MaxBytes }
U16s == {0, 1, 255, 256, 65535}
OpU ==   { [op |-> nm] : nm \in {"Noop", "Add", "Sub", "Mul", "Div", "Rem", "And", "Or", "Xor", "Not", "Eql", "Lt", "Gt", "Shl", "Shr",
                                 "Load", "Store", "VRef", "VAppend", "VEmpty", "VLength", "VSlice", "VSet", "VPush", "VCons",
                                 "BRef", "BAppend", "BEmpty", "BLength", "BSlice", "BSet", "BPush", "BCons", "ItoB", "BtoI", "TypeQ", "Dup"} }
    \cup { [op |-> "Hash", n |-> x] : x \in U16s } \cup { [op |-> "SigEOk", n |-> x] : x \in U16s }
    \cup { [op |-> "LoadImm", a |-> x] : x \in U16s } \cup { [op |-> "StoreImm", a |-> x] : x \in U16s }
    \cup { [op |-> "Jmp", k |-> x] : x \in U16s } \cup { [op |-> "Bez", k |-> x] : x \in U16s } \cup { [op |-> "Bnz", k |-> x] : x \in U16s }
    \cup { [op |-> "Exp", k |-> x] : x \in {0, 1, 255} }
    \cup { [op |-> "Loop", n |-> x, m |-> y] : x \in {0, 1, 65535}, y \in {0, 256, 65535} }
    \cup { [op |-> "PushB", b |-> s] : s \in {<<>>, <<0>>, <<1, 2>>, [i \in 1..255 |-> 7]} }
    \cup { [op |-> "PushI", i |-> x] : x \in {Zero, N(1), N(256), Sub(Pow2(256), N(1))} }
    \cup { [op |-> "PushIC", i |-> x] : x \in {Zero, N(1), N(255), N(256), Pow2(255), Sub(Pow2(256), N(1))} }
Lists == UNION { [1..n -> OpU] : n \in 0..2 }

VARIABLES x, done
Init == done = FALSE /\ x \in (IF Mode = "bytes" THEN Strings ELSE Lists)
Next == done = FALSE /\ done' = TRUE /\ UNCHANGED x

\* C12: decode fails, or re-encodes to exactly the same bytes (and the whole input was consumed)
DecodeRoundTrip == Mode = "bytes" => LET d == Decode(x) IN d.ok => Encode(d.ops) = x
\* C12: encode then decode returns the same program
EncodeRoundTrip == Mode = "ops" => LET d == Decode(Encode(x)) IN d.ok /\ d.ops = x
\* weight is a function of the program only, so it is the same from bytes and from instructions
WeightFromBytes == Mode = "ops" => Weight(Decode(Encode(x)).ops) = Weight(x)
=============================================================================

--------------------------- MODULE Trace_Consensus ---------------------------
EXTENDS Consensus, Json, IOUtils
Rec == ndJsonDeserialize(IOEnv.TRACE)
VARIABLES l
Verdicts(r) ==
       (IF r.res = "panic" THEN {<<"C14", "confirm panicked">>, <<"C09", "confirm panicked">>} ELSE {})
  \cup (IF r.res = "some" /\ MustNotConfirm(r.stakes, r.epoch, r.signers)
        THEN {<<"C14", IF AllValid(r.signers) THEN "confirmed although the signers hold less than two thirds of the active voting power"
                       ELSE "confirmed although a signature in the proof is not valid for the header">>} ELSE {})
  \cup (IF r.res = "none" /\ MustConfirm(r.stakes, r.epoch, r.signers)
        THEN {<<"C14", "not confirmed although every signature is valid and the signers hold more than two thirds of the active voting power">>} ELSE {})
Init == l = 1
Next == /\ l <= Len(Rec)
        /\ l' = l + 1
        /\ \A v \in Verdicts(Rec[l]) : PrintT(ToJson([k |-> "VERDICT", p |-> v[1], l |-> l, c |-> v[2], kf |-> "", fam |-> Rec[l].fam]))
Post == TLCGet("stats").diameter - 1 = Len(Rec)
=============================================================================

-------------------------------- MODULE Seal --------------------------------
(***************************************************************************)
(* Sealing a block, advancing to the next block, and what a header holds.  *)
(* Seal = create built-ins ; swaps ; deposits ; withdrawals ; pegging ;     *)
(* TIP-909 subsidy ; proposer action.                                       *)
(* Works on coin maps / pool maps of Ledger.tla.                            *)
(***************************************************************************)
EXTENDS Ledger

\* ---- which transactions of the block are genuine melswap requests ------------------------------
BytesLess(a, b) ==   \* lexicographic order on byte strings
    \E k \in 0..Len(a) : /\ k <= Len(b) /\ \A i \in 1..k : a[i] = b[i]
                         /\ \/ (k = Len(a) /\ k < Len(b))
                            \/ (k < Len(a) /\ k < Len(b) /\ a[k + 1] < b[k + 1])
\* a pool is named by two distinct concrete denominations in canonical order, however the name is spelled
KeyOK(tx) == tx.pk.ok /\ BytesLess(tx.pk.key.lb, tx.pk.key.rb) /\ tx.pk.key.l # "NEW" /\ tx.pk.key.r # "NEW"
KeyOf(tx) == <<tx.pk.key.l, tx.pk.key.r>>
LiqDenom(tx) == tx.pk.key.liq
Coin0(tx) == <<tx.id, 0>>
Coin1(tx) == <<tx.id, 1>>

IsSwap(tx, cm, pools) ==
    /\ tx.kind = KIND_SWAP /\ Len(tx.outs) >= 1 /\ Coin0(tx) \in DOMAIN cm /\ KeyOK(tx) /\ KeyOf(tx) \in DOMAIN pools
    /\ pools[KeyOf(tx)].l # Zero /\ pools[KeyOf(tx)].r # Zero
    /\ tx.outs[1].denom \in {tx.pk.key.l, tx.pk.key.r} /\ tx.outs[1].val # Zero
IsDeposit(tx, cm) ==
    /\ tx.kind = KIND_DEPOSIT /\ Len(tx.outs) >= 2 /\ Coin0(tx) \in DOMAIN cm /\ Coin1(tx) \in DOMAIN cm /\ KeyOK(tx)
    /\ tx.outs[1].denom = tx.pk.key.l /\ tx.outs[2].denom = tx.pk.key.r /\ tx.outs[1].val # Zero /\ tx.outs[2].val # Zero
IsWithdraw(tx, cm, pools) ==
    /\ tx.kind = KIND_WITHDRAW /\ Len(tx.outs) = 1 /\ Coin0(tx) \in DOMAIN cm /\ KeyOK(tx) /\ KeyOf(tx) \in DOMAIN pools
    /\ tx.outs[1].denom = LiqDenom(tx) /\ tx.outs[1].val # Zero

Keys(reqs) == {KeyOf(reqs[i]) : i \in DOMAIN reqs}
ForKey(reqs, k) == SelectSeq(reqs, LAMBDA tx : KeyOf(tx) = k)
PutCoin(cm, id, c) == [x \in DOMAIN cm \cup {id} |-> IF x = id THEN c ELSE cm[x]]
DelCoin(cm, id) == RestrictTo(cm, DOMAIN cm \ {id})

\* ---- swaps: all requests against one pool settle at one price ---------------------------------
SwapPool(w, k, reqs, h) ==   \* w = [cm, pools]
    LET p  == w.pools[k]
        tl == SumBigSat(reqs, LAMBDA tx : IF tx.outs[1].denom = k[1] THEN tx.outs[1].val ELSE Zero)
        tr == SumBigSat(reqs, LAMBDA tx : IF tx.outs[1].denom = k[2] THEN tx.outs[1].val ELSE Zero)
        sw == SwapMany(p, tl, tr)
        newcoin(tx) == IF tx.outs[1].denom = k[1]
                       THEN [cov |-> tx.outs[1].cov, val |-> BN_Min(MultiplyFrac(sw.rw, tx.outs[1].val, tl), MAXCOIN), denom |-> k[2], data |-> tx.outs[1].data, h |-> h]
                       ELSE [cov |-> tx.outs[1].cov, val |-> BN_Min(MultiplyFrac(sw.lw, tx.outs[1].val, tr), MAXCOIN), denom |-> k[1], data |-> tx.outs[1].data, h |-> h]
        cm2 == FoldSeq(LAMBDA tx, acc : PutCoin(acc, Coin0(tx), newcoin(tx)), w.cm, reqs)
    IN [cm |-> cm2, pools |-> Put(w.pools, k, sw.pool)]
DoSwaps(cm, pools, txs, h) ==
    LET reqs == SelectSeq(txs, LAMBDA tx : IsSwap(tx, cm, pools))
    IN FoldSeq(LAMBDA k, w : SwapPool(w, k, ForKey(reqs, k), h), [cm |-> cm, pools |-> pools], SetToSeq(Keys(reqs)))

\* ---- deposits: liquidity tokens in proportion to each depositor's own weight ------------------------
DepWeight(tx) == SatMul(Sqrt(tx.outs[1].val), Sqrt(tx.outs[2].val))
DepositPool(w, k, reqs, h, legacy) ==  \* w = [cm, pools, minted : key -> amount]
    LET p   == IF k \in DOMAIN w.pools THEN w.pools[k] ELSE EmptyPool
        tl  == SumBigSat(reqs, LAMBDA tx : tx.outs[1].val)
        tr  == SumBigSat(reqs, LAMBDA tx : tx.outs[2].val)
        dep == Deposit(p, tl, tr)
        tw  == SumBigSat(reqs, DepWeight)
        newcoin(tx) == [cov |-> tx.outs[1].cov, val |-> MultiplyFrac(dep.minted, DepWeight(tx), tw), denom |-> LiqDenom(tx), data |-> tx.outs[1].data, h |-> h]
        cm2 == FoldSeq(LAMBDA tx, acc : LET a == PutCoin(acc, Coin0(tx), newcoin(tx)) IN IF legacy THEN a ELSE DelCoin(a, Coin1(tx)), w.cm, reqs)
    IN [cm |-> cm2, pools |-> Put(w.pools, k, dep.pool), minted |-> Put(w.minted, LiqDenom(reqs[1]), dep.minted)]
DoDeposits(cm, pools, txs, h, legacy) ==
    LET reqs == SelectSeq(txs, LAMBDA tx : IsDeposit(tx, cm))
    IN FoldSeq(LAMBDA k, w : DepositPool(w, k, ForKey(reqs, k), h, legacy), [cm |-> cm, pools |-> pools, minted |-> EmptyFn], SetToSeq(Keys(reqs)))

\* ---- withdrawals ------------------------------------------------------------------------------------
WithdrawPool(w, k, reqs, h) ==
    LET p  == w.pools[k]
        tq == SumBigSat(reqs, LAMBDA tx : tx.outs[1].val)
        over == Gt(tq, p.liqs)      \* more than the pool ever issued: the requests are ignored (coins and pool untouched)
        wd == IF over THEN [pool |-> p, l |-> Zero, r |-> Zero] ELSE Withdraw(p, tq)
        c0(tx) == [cov |-> tx.outs[1].cov, val |-> MultiplyFrac(wd.l, tx.outs[1].val, tq), denom |-> k[1], data |-> tx.outs[1].data, h |-> h]
        c1(tx) == [cov |-> tx.outs[1].cov, val |-> MultiplyFrac(wd.r, tx.outs[1].val, tq), denom |-> k[2], data |-> tx.outs[1].data, h |-> h]
        cm2 == IF over THEN w.cm ELSE FoldSeq(LAMBDA tx, acc : PutCoin(PutCoin(acc, Coin0(tx), c0(tx)), Coin1(tx), c1(tx)), w.cm, reqs)
    IN [cm |-> cm2, pools |-> Put(w.pools, k, wd.pool)]
WithdrawDefined(pools, txs, cm) ==
    LET reqs == SelectSeq(txs, LAMBDA tx : IsWithdraw(tx, cm, pools))
    IN \A k \in Keys(reqs) : Leq(SumBigSat(ForKey(reqs, k), LAMBDA tx : tx.outs[1].val), pools[k].liqs)
DoWithdrawals(cm, pools, txs, h) ==
    LET reqs == SelectSeq(txs, LAMBDA tx : IsWithdraw(tx, cm, pools))
    IN FoldSeq(LAMBDA k, w : WithdrawPool(w, k, ForKey(reqs, k), h), [cm |-> cm, pools |-> pools], SetToSeq(Keys(reqs)))

\* ---- fee multiplier step (C17) --------------------------------------------------------------------------
\* delta in -128..127 ; step = trunc(max(m / 128, floor2) * delta / 128)
FeeMultStep(m, delta, tip901) ==
    LET mm == IF tip901 THEN BN_Max(Shr(m, 7), N(2)) ELSE Shr(m, 7)
        mag == IF delta < 0 THEN 0 - delta ELSE delta
    IN Shr(MulSmall(mm, mag), 7)
NextFeeMult(m, delta, tip901) ==
    IF delta >= 0 THEN Clamp128(Add(m, FeeMultStep(m, delta, tip901))) ELSE Monus(m, FeeMultStep(m, delta, tip901))

\* ---- the whole seal --------------------------------------------------------------------------------------
\* st: unsealed state record; action: [some, delta, dest]; txs: the block's transactions; rewardid: coin id (fact)
\* returns [cm, pools, feePool, tips, feeMult, minted, pegMel, pegSym, subsidySym]
SealSpec(st, action, txs, rewardid) ==
    LET h == st.height  net == st.net
        cm0 == CoinMap(st)
        p0 == CreateBuiltins(PoolMap(st), Tip902(net, h))
        w1 == DoSwaps(cm0, p0, txs, h)
        w2 == DoDeposits(w1.cm, w1.pools, txs, h, LegacyNet(net) /\ h < LEGACY_DEPOSIT)
        w3 == DoWithdrawals(w2.cm, w2.pools, txs, h)
        pg == Peg(w3.pools, h, Tip902(net, h))
        t9 == IF Tip909(net, h) THEN Subsidy909(pg.pools, h, Tip909a(net, h)) ELSE [pools |-> pg.pools, feeGain |-> Zero, symIn |-> Zero]
        fp1 == Add(st.feePool, t9.feeGain)
        base == Shr(fp1, FEE_SHIFT)
        reward == [cov |-> action.dest, val |-> Add(base, st.tips), denom |-> "MEL", data |-> <<>>, h |-> h]
    IN [ cm |-> IF action.some THEN PutCoin(w3.cm, rewardid, reward) ELSE w3.cm,
         pools |-> t9.pools,
         feePool |-> IF action.some THEN Sub(fp1, base) ELSE fp1,
         tips |-> IF action.some THEN Zero ELSE st.tips,
         feeMult |-> IF action.some THEN NextFeeMult(st.feeMult, action.delta, Tip901(net, h)) ELSE st.feeMult,
         \* (requests to redeem more than a pool's liquidity are ignored: WithdrawPool; kept as a field for the monitors)
         defined |-> TRUE,
         \* per denomination, the value of the second coins that legacy deposits keep (zero function outside the legacy window)
         legacyKept |-> [d \in DenomsOf(st) \cup {"MEL", "SYM", "ERG"} \cup {tx.outs[2].denom : tx \in {t \in RangeS(txs) : IsDeposit(t, w1.cm)}} |->
                          IF LegacyNet(net) /\ h < LEGACY_DEPOSIT
                          THEN SumBig(SelectSeq(txs, LAMBDA tx : IsDeposit(tx, w1.cm) /\ tx.outs[2].denom = d), LAMBDA tx : tx.outs[2].val) ELSE Zero],
         minted |-> w2.minted, pegMel |-> pg.melIn, pegSym |-> pg.symIn, subsidySym |-> t9.symIn ]
=============================================================================

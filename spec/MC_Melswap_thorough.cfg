CONSTANTS
  W = 32
  MaxReq = 3
  MaxAmt = 2
  MaxBlocks = 2
  CodeShareRule = FALSE
VIEW View
INIT Init
NEXT Next
INVARIANT C16_Backed
PROPERTIES C15_Swap C01_Conserved C15_Untouched
CHECK_DEADLOCK FALSE

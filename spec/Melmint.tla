------------------------------- MODULE Melmint -------------------------------
(***************************************************************************)
(* Sealing arithmetic of Melmint / Melswap: constant-product pools with a  *)
(* 0.5% fee, pro-rata settlement of a block's requests at one price,       *)
(* liquidity deposits and withdrawals, the built-in pools, pegging and the *)
(* TIP-909 subsidy.  All quantities are BigNat; all divisions are floors.  *)
(* A pool is [l, r, acc, liqs]; a pool map is a function from keys         *)
(* <<leftDenom, rightDenom>> (denominations are strings).                  *)
(***************************************************************************)
EXTENDS BigNat, Params, TLC, SequencesExt

N(i) == FromInt(i)
Clamp128(x) == BN_Min(x, U128MAX)
SatAdd(a, b) == Clamp128(Add(a, b))
SatMul(a, b) == Clamp128(Mul(a, b))
MICRO == N(1000000)
MAXCOIN == Pow2(MAXCOIN_BITS)

\* ---- one pool ---------------------------------------------------------------
EmptyPool == [l |-> Zero, r |-> Zero, acc |-> Zero, liqs |-> Zero]
SwapDefined(p, l, r) == SatAdd(p.l, l) # Zero /\ SatAdd(p.r, r) # Zero
\* returns [pool, lw, rw]; defined when SwapDefined
SwapMany(p, l, r) ==
    LET L1 == SatAdd(p.l, l)
        R1 == SatAdd(p.r, r)
        rw == Clamp128(Div(Mul(Mul(l, R1), N(995)), Mul(L1, N(1000))))
        lw == Clamp128(Div(Mul(Mul(r, L1), N(995)), Mul(R1, N(1000))))
        L2 == Sub(L1, lw)
        R2 == Sub(R1, rw)
        inc == Div(Clamp128(Mul(L2, MICRO)), R2)
        acc == Mod(Add(p.acc, inc), Pow2(128))
    IN [pool |-> [l |-> L2, r |-> R2, acc |-> acc, liqs |-> p.liqs], lw |-> lw, rw |-> rw]

\* returns [pool, minted]
Deposit(p, l, r) ==
    IF p.liqs = Zero
    THEN [pool |-> [p EXCEPT !.l = l, !.r = r, !.liqs = l], minted |-> l]
    ELSE LET mels == Sub(SatAdd(l, p.l), p.l)
             toks == Sub(SatAdd(r, p.r), p.r)
             dsq  == Div(Mul(Mul(p.liqs, p.liqs), Mul(mels, toks)), Mul(p.l, p.r))
             dl   == Clamp128(Sqrt(dsq))
         IN [pool |-> [p EXCEPT !.l = Add(p.l, mels), !.r = Add(p.r, toks), !.liqs = SatAdd(p.liqs, dl)], minted |-> dl]
\* returns [pool, l, r]; defined for q <= liqs, liqs # 0
Withdraw(p, q) ==
    LET liqs2 == Sub(p.liqs, q) IN
    IF liqs2 = Zero
    THEN [pool |-> [p EXCEPT !.l = Zero, !.r = Zero, !.liqs = Zero], l |-> p.l, r |-> p.r]
    ELSE LET lo == Div(Mul(p.l, q), p.liqs)
             ro == Div(Mul(p.r, q), p.liqs)
         IN [pool |-> [p EXCEPT !.l = Sub(p.l, lo), !.r = Sub(p.r, ro), !.liqs = liqs2], l |-> lo, r |-> ro]

\* floor(x * num / den), clamped to u128
MultiplyFrac(x, num, den) == Clamp128(Div(Mul(x, num), den))

\* ---- pool maps -----------------------------------------------------------------
Put(pools, k, v) == [x \in DOMAIN pools \cup {k} |-> IF x = k THEN v ELSE pools[x]]
K_MS == <<"MEL", "SYM">>
K_EM == <<"ERG", "MEL">>
K_ES == <<"ERG", "SYM">>
DefPool == Deposit(EmptyPool, Mul(MICRO, N(BUILTIN_RESERVE)), Mul(MICRO, N(BUILTIN_RESERVE))).pool
CreateBuiltins(pools, tip902) ==
    LET p1 == IF K_MS \in DOMAIN pools THEN pools ELSE Put(pools, K_MS, DefPool)
        p2 == IF K_EM \in DOMAIN p1 THEN p1 ELSE Put(p1, K_EM, DefPool)
        p3 == IF tip902 /\ K_ES \notin DOMAIN p2 THEN Put(p2, K_ES, DefPool) ELSE p2
    IN p3

\* microergs per dosc: 10^6 + h while the table grows by one per block (exact for h <= 3*10^6)
MicroErgsPerDosc(h) == Add(MICRO, N(h))

\* pegging; returns [pools, melIn, symIn] (melIn / symIn are created by the nudge, the other side is thrown away)
Peg(pools, height, tip902) ==
    LET sm  == pools[K_MS]
        mpd == MicroErgsPerDosc(height)
        num == IF tip902 THEN Mul(mpd, pools[K_ES].r)
               ELSE Mul(mpd, Mul(pools[K_MS].r, pools[K_EM].l))
        den == IF tip902 THEN Mul(MICRO, pools[K_ES].l)
               ELSE Mul(MICRO, Mul(pools[K_MS].l, pools[K_EM].r))
        k   == Mul(sm.l, sm.r)
        dmel == Clamp128(Sqrt(Div(Mul(k, den), num)))
        dsym == Clamp128(Sqrt(Div(Mul(k, num), den)))
        thr == IF tip902 THEN 200 ELSE 1000
        d1 == IF Gt(dmel, sm.l) THEN DivSmall(Sub(dmel, sm.l), thr) ELSE Zero
        s1 == IF Gt(dmel, sm.l) THEN SwapMany(sm, d1, Zero).pool ELSE sm
        d2 == IF Gt(dsym, s1.r) THEN DivSmall(Sub(dsym, s1.r), thr) ELSE Zero
        s2 == IF Gt(dsym, s1.r) THEN SwapMany(s1, Zero, d2).pool ELSE s1
    IN [pools |-> Put(pools, K_MS, s2), melIn |-> d1, symIn |-> d2, dmel |-> dmel, dsym |-> dsym, mid |-> s1, thr |-> thr]

\* TIP-909; returns [pools, feeGain, symIn]
Subsidy909(pools, height, tip909a) ==
    LET divider == (IF height > TIP_909 THEN height - TIP_909 ELSE 0) \div TIP909_HALVING
        reward == IF divider > TIP909_REWARD_BITS THEN Zero ELSE Shr(Pow2(TIP909_REWARD_BITS), divider)
        ergSub == IF tip909a THEN Shr(reward, 8) ELSE Sub(reward, Shr(reward, 1))
        feeSub == IF tip909a THEN Sub(reward, Shr(reward, 8)) ELSE Shr(reward, 1)
        a == SwapMany(pools[K_MS], Zero, feeSub)
        b == SwapMany(pools[K_ES], Zero, ergSub)
    IN [pools |-> Put(Put(pools, K_MS, a.pool), K_ES, b.pool), feeGain |-> a.lw, symIn |-> reward]
=============================================================================

CONSTANTS
  W = 32
  MaxM = 1500
  U128 <- [FeeMultInt] MC_U128
  P64 <- [FeeMultInt] MC_P64
INIT Init
NEXT Next
INVARIANT Agree
CHECK_DEADLOCK FALSE

----------------------------- MODULE FeeMultInt -----------------------------
(***************************************************************************)
(* The fee-multiplier step of Seal.tla (FeeMultStep / NextFeeMult) over    *)
(* mathematical integers, for Apalache: C17's clauses for EVERY multiplier *)
(* in 0 .. 2^128-1, every delta in -128 .. 127, before and after TIP-901   *)
(* (an unbounded complement of MC_FeeMult's grid; MC_FeeMultInt.tla checks *)
(* with TLC that this integer transcription agrees with the BigNat one).   *)
(* Optional extra: never gates a verdict.                                  *)
(***************************************************************************)
EXTENDS Integers

VARIABLES
    \* @type: Int;
    m,
    \* @type: Int;
    d,
    \* @type: Bool;
    t,
    \* @type: Int;
    out

\* 2^64 as a product of small literals (TLC refuses to parse larger ones; its configuration overrides P64 and U128); 2^128 - 1 from it
P64 == 65536 * 65536 * 65536 * 65536
U128 == P64 * P64 - 1
MaxI(a, b) == IF a >= b THEN a ELSE b
Base(mm, tt) == IF tt THEN MaxI(mm \div 128, 2) ELSE mm \div 128
Mag(dd) == IF dd < 0 THEN 0 - dd ELSE dd
StepI(mm, dd, tt) == (Base(mm, tt) * Mag(dd)) \div 128
NextI(mm, dd, tt) ==
    IF dd >= 0 THEN (IF mm + StepI(mm, dd, tt) > U128 THEN U128 ELSE mm + StepI(mm, dd, tt))
    ELSE (IF StepI(mm, dd, tt) > mm THEN 0 ELSE mm - StepI(mm, dd, tt))

Init == /\ m \in Int /\ m >= 0 /\ m <= U128
        /\ d \in Int /\ d >= 0 - 128 /\ d <= 127
        /\ t \in BOOLEAN
        /\ out = NextI(m, d, t)
Next == UNCHANGED <<m, d, t, out>>

Abs(a) == IF a < 0 THEN 0 - a ELSE a
\* moves by at most max(m / 128, 2), in the direction of delta, stays a u128, zero delta changes nothing
C17_Bounded == Abs(out - m) <= MaxI(m \div 128, 2) /\ out >= 0 /\ out <= U128
C17_Direction == (d >= 0 => out >= m) /\ (d <= 0 => out <= m)
C17_ZeroDelta == d = 0 => out = m
C17 == C17_Bounded /\ C17_Direction /\ C17_ZeroDelta
=============================================================================

------------------------------ MODULE MC_Chain ------------------------------
(***************************************************************************)
(* Exhaustive model of block production, block application and restart     *)
(* (C06, C07, C08) over a 5-transaction universe with fees and tips.       *)
(* A header is the record of everything it commits to (the commitment is   *)
(* the identity, i.e. ideally collision-free); a block is [header, txs,    *)
(* action].  ApplyBlock re-derives the header from the parent and the      *)
(* block's contents with the same operators that produced it.              *)
(* TipsCarry = TRUE lets pending tips survive the block boundary in the    *)
(* running state but not in a rebuilt one (mutant: TLC must refute C08).   *)
(***************************************************************************)
EXTENDS Seal

CONSTANTS MaxHeight, TipsCarry

MC_OUTPUT_PENALTY == 2
MC_FEE_SHIFT == 1
B1(n) == <<n>>
CovT == [cov |-> "T", bytes |-> <<242, 1, 1>>]
O(c, v, d) == [cov |-> c, covb |-> B1(1), val |-> N(v), denom |-> d, denomb |-> B1(2), data |-> <<>>]
In(t, i) == [id |-> <<t, i>>, txb |-> B1(3), idx |-> i]
NoPk == [ok |-> FALSE, key |-> [l |-> "", r |-> "", lb |-> <<>>, rb |-> <<>>, liq |-> ""]]
NoStake == [ok |-> FALSE, pk |-> "", start |-> Zero, end |-> Zero, syms |-> Zero]
NoMint == [decoded |-> FALSE, difficulty |-> Zero, parsed |-> FALSE, proof |-> "none"]
T(id, k, i, o, f, cv) == [id |-> id, hashb |-> B1(4), kind |-> k, ins |-> i, outs |-> o, fee |-> N(f), covs |-> cv, data |-> <<>>, sigs |-> <<>>,
                          size |-> 1, facts |-> [hash |-> <<>>, sig |-> <<>>], pk |-> NoPk, stakedoc |-> NoStake, mint |-> NoMint, marker |-> "fdp:" \o id]
U == [t \in {"F", "A", "B", "C", "X"} |->
  CASE t = "F" -> T(t, KIND_FAUCET, <<>>, <<O("T", 8, "MEL")>>, 0, <<>>)
    [] t = "A" -> T(t, KIND_NORMAL, <<In("gen", 0)>>, <<O("T", 4, "MEL"), O("T", 3, "MEL")>>, 1, <<CovT>>)     \* pays a tip of 1
    [] t = "B" -> T(t, KIND_NORMAL, <<In("A", 0)>>, <<O("T", 2, "MEL")>>, 2, <<CovT>>)                          \* tip 2
    [] t = "C" -> T(t, KIND_NORMAL, <<In("A", 1)>>, <<O("T", 3, "MEL")>>, 0, <<CovT>>)
    [] t = "X" -> T(t, KIND_NORMAL, <<In("nope", 0)>>, <<O("T", 1, "MEL")>>, 0, <<CovT>>)]
TxIds == DOMAIN U
Actions == {[some |-> FALSE, delta |-> 0, dest |-> ""], [some |-> TRUE, delta |-> 0, dest |-> "T"], [some |-> TRUE, delta |-> 0, dest |-> "D2"]}

\* ---- states: [height, cm, feePool, tips, feeMult, txset, hist] ; sealed states also carry [action] -----------------
Names == {"T", "D2", DESTROY_COV, "MEL"}
Ctx0 == [lastHeader |-> [net |-> 2, prevb |-> <<>>, height |-> 0, histb |-> <<>>, coinsb |-> <<>>, txsb |-> <<>>, feePool |-> Zero, feeMult |-> Zero, dosc |-> Zero, poolsb |-> <<>>, stakesb |-> <<>>],
         bytesOf |-> [n \in Names |-> B1(9)], hdrs |-> EmptyFn]
StRec(s) == [net |-> 2, height |-> s.height, feePool |-> s.feePool, tips |-> s.tips, feeMult |-> s.feeMult, dosc |-> N(1000000), coins |-> SeqOfCoinMap(s.cm),
             counts |-> <<>>, pools |-> <<>>, stakes |-> <<>>, txset |-> SetToSeq(s.txset), hist |-> <<>>, unknown |-> <<>>, unknownPools |-> <<>>]
TxSeq(ids) == LET q == SetToSeq(ids) IN [i \in DOMAIN q |-> U[q[i]]]
BatchOK(s, ids) == AcceptOf(Clauses(TxSeq(ids), StRec(s), Ctx0))
AfterBatch(s, ids) == LET b == TxSeq(ids) IN
    [s EXCEPT !.cm = NextCoins(b, s.cm, s.height), !.feePool = SatAdd(s.feePool, FeeSum(b, s.feeMult)),
              !.tips = SatAdd(s.tips, TipSum(b, s.feeMult)), !.txset = s.txset \cup ids]
RewardId(h) == <<"reward", h>>
SealOf(s, a) ==
    LET base == Shr(s.feePool, FEE_SHIFT) IN
    IF a.some THEN [s EXCEPT !.cm = PutCoin(s.cm, RewardId(s.height), [cov |-> a.dest, val |-> Add(base, s.tips), denom |-> "MEL", data |-> <<>>, h |-> s.height]),
                             !.feePool = Sub(s.feePool, base), !.tips = Zero]
    ELSE s
\* what a header commits to (tips are NOT part of it)
HeaderOf(s) == [height |-> s.height, prev |-> IF s.height = 0 THEN [tag |-> "genesis"] ELSE s.hist[s.height], hist |-> s.hist, coins |-> s.cm, txs |-> s.txset,
                feePool |-> s.feePool, feeMult |-> s.feeMult]
NextOf(s, keepTips) == [s EXCEPT !.hist = Append(s.hist, HeaderOf(s)), !.height = s.height + 1, !.txset = {}, !.tips = IF keepTips THEN s.tips ELSE Zero]
BlockOf(s, a) == [header |-> HeaderOf(s), txs |-> s.txset, action |-> a]
\* rebuilding from the block: everything comes from the header and the block; tips are not there
Rebuild(blk) == [height |-> blk.header.height, cm |-> blk.header.coins, feePool |-> blk.header.feePool, tips |-> Zero, feeMult |-> blk.header.feeMult,
                 txset |-> blk.txs, hist |-> blk.header.hist]
\* apply_block: [ok, st]
ApplyBlock(parent, blk) ==
    LET basis == NextOf(parent, TipsCarry) IN
    IF ~BatchOK(basis, blk.txs) THEN [ok |-> FALSE, st |-> parent]
    ELSE LET sealed == SealOf(AfterBatch(basis, blk.txs), blk.action)
         IN IF HeaderOf(sealed) = blk.header THEN [ok |-> TRUE, st |-> sealed] ELSE [ok |-> FALSE, st |-> parent]

VARIABLES cur, phase, parent, act, twin
\* cur: the running state; parent: the sealed state the current block extends; twin: a restarted copy of the last sealed state
vars == <<cur, phase, parent, act, twin>>

Init == /\ cur = [height |-> 0, cm |-> [k \in {<<"gen", 0>>} |-> [cov |-> "T", val |-> N(8), denom |-> "MEL", data |-> <<>>, h |-> 0]], feePool |-> N(5), tips |-> Zero,
                  feeMult |-> Zero, txset |-> {}, hist |-> <<>>]
        /\ phase = "unsealed" /\ parent = cur /\ act = [some |-> FALSE, delta |-> 0, dest |-> ""] /\ twin = cur
Batch(ids) == phase = "unsealed" /\ BatchOK(cur, ids) /\ cur' = AfterBatch(cur, ids) /\ UNCHANGED <<phase, parent, act, twin>>
DoSeal(a) == phase = "unsealed" /\ cur' = SealOf(cur, a) /\ act' = a /\ phase' = "sealed" /\ twin' = Rebuild(BlockOf(SealOf(cur, a), a)) /\ UNCHANGED parent
DoNext == phase = "sealed" /\ cur.height < MaxHeight /\ parent' = cur /\ cur' = NextOf(cur, TipsCarry) /\ phase' = "unsealed" /\ UNCHANGED <<act, twin>>
Next == \/ \E ids \in SUBSET TxIds : ids # {} /\ Cardinality(ids) <= 2 /\ Batch(ids)
        \/ \E a \in Actions : DoSeal(a)
        \/ DoNext

\* ---- C06: the honestly produced block is accepted by its parent with exactly its header; every single mutation is
\* accepted only if it is itself the correct successor (its header is the header of its own contents)
Honest == BlockOf(cur, act)
Mutations(b) ==
       { [b EXCEPT !.header.feePool = Add(b.header.feePool, N(1))], [b EXCEPT !.header.height = b.header.height + 1], [b EXCEPT !.header.feeMult = N(7)],
         [b EXCEPT !.header.prev = [tag |-> "other"]], [b EXCEPT !.header.coins = EmptyFn], [b EXCEPT !.header.txs = {"Z"}], [b EXCEPT !.header.hist = <<>>] }
  \cup { [b EXCEPT !.txs = b.txs \ {t}] : t \in b.txs } \cup { [b EXCEPT !.txs = b.txs \cup {t}] : t \in TxIds \ b.txs }
  \cup { [b EXCEPT !.action = a] : a \in Actions \ {b.action} }
Correct(p, b) == LET basis == NextOf(p, TipsCarry) IN BatchOK(basis, b.txs) /\ HeaderOf(SealOf(AfterBatch(basis, b.txs), b.action)) = b.header
C06_HonestAccepted == (phase = "sealed" /\ cur.height > 0) => LET r == ApplyBlock(parent, Honest) IN r.ok /\ HeaderOf(r.st) = Honest.header
C06_ExactlyCorrect == (phase = "sealed" /\ cur.height > 0) => \A m \in Mutations(Honest) : ApplyBlock(parent, m).ok <=> Correct(parent, m)
C06_MutationsRejected == (phase = "sealed" /\ cur.height > 0) =>
      \A m \in Mutations(Honest) : (m.header # Honest.header \/ m.txs # Honest.txs) => ~ApplyBlock(parent, m).ok
\* ---- C07: linkage
C07_Linked == phase = "sealed" => /\ Len(cur.hist) = cur.height
                                  /\ (cur.height > 0 => HeaderOf(cur).prev = HeaderOf(parent) /\ cur.hist[cur.height] = HeaderOf(parent))
\* ---- C08: a state rebuilt from its block is indistinguishable from then on: the next block's starting state is the same
\* and both accept / reject every next block alike
C08_RestartEquivalent == phase = "sealed" =>
      /\ NextOf(twin, TipsCarry) = NextOf(cur, TipsCarry)
      /\ \A ids \in SUBSET TxIds : Cardinality(ids) <= 2 => \A a \in Actions :
            LET n1 == NextOf(cur, TipsCarry)  n2 == NextOf(twin, TipsCarry) IN
            /\ BatchOK(n1, ids) = BatchOK(n2, ids)
            /\ BatchOK(n1, ids) => HeaderOf(SealOf(AfterBatch(n1, ids), a)) = HeaderOf(SealOf(AfterBatch(n2, ids), a))
=============================================================================

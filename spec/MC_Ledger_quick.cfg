CONSTANTS
  W = 32
  MaxBatch = 2
  MaxHeight = 1
  SeqRule = FALSE
  FeeMultInit = 0
  OUTPUT_PENALTY <- MC_OUTPUT_PENALTY
  FEE_SHIFT <- MC_FEE_SHIFT
VIEW View
INIT Init
NEXT Next
INVARIANT C03_OrderIndependent
PROPERTIES C02_ExactTransition C02_NoDoubleSpendAccepted C01_Conservation C05_FeesExact C19_FaucetOnce C19_MarkersStay C04_CovenantApproved
CHECK_DEADLOCK FALSE

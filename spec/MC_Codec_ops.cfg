CONSTANTS W = 32  MaxBytes = 0  Mode = "ops"
INIT Init
NEXT Next
CHECK_DEADLOCK FALSE
INVARIANTS EncodeRoundTrip WeightFromBytes

------------------------------- MODULE MC_Peg -------------------------------
(***************************************************************************)
(* One sealing step of the built-in pools from EVERY pool state of a       *)
(* geometric grid (reserves from 1 to 2^127): an arbitrary block of swaps  *)
(* against MEL/SYM (side totals from a grid, settled at one price), then   *)
(* pegging (pre- and post-TIP-902 rule) and the TIP-909 subsidy (before /  *)
(* after 909a, at every halving boundary), by Melmint.tla's operators with *)
(* the real constants.  Pure evaluation: one initial state per case, one   *)
(* step computing the result.  What it establishes is inductive: non-zero  *)
(* reserves before a seal => the seal is total (no division by zero, no    *)
(* negative difference: those are TLC errors) and leaves non-zero reserves *)
(* (C16, C09), never lowers a reserve product (C15), creates exactly the   *)
(* throttled peg amount and the scheduled subsidy and nothing else (C01),  *)
(* and never overshoots the target it nudges towards.                      *)
(* MutPeg / MutSubsidy are wrong variants TLC must refute (mutant cfgs).   *)
(***************************************************************************)
EXTENDS Melmint, FiniteSets

CONSTANTS Grid, SwapGrid, Heights

VARIABLES ms, em, es, h, t902, t909, t909a, sl, sr, res
vars == <<ms, em, es, h, t902, t909, t909a, sl, sr, res>>

G(i) == CASE i = 0 -> Zero [] i = 1 -> N(1) [] i = 2 -> N(1000) [] i = 3 -> MICRO [] i = 4 -> Mul(MICRO, N(1000000000)) [] i = 5 -> Pow2(100) [] i = 6 -> Pow2(120) [] i = 7 -> Pow2(127)
P(l, r) == [l |-> G(l), r |-> G(r), acc |-> Zero, liqs |-> G(l)]

\* only the pools a rule reads vary: pre-TIP-902 pegging reads MEL/SYM and ERG/MEL, post-TIP-902 pegging and the subsidy read MEL/SYM and ERG/SYM
Init == /\ ms \in {P(a, b) : a \in Grid, b \in Grid}
        /\ t902 \in BOOLEAN /\ t909 \in BOOLEAN /\ t909a \in BOOLEAN
        /\ (t909 => t902) /\ (t909a => t909)
        /\ em \in (IF t902 THEN {P(4, 4)} ELSE {P(a, b) : a \in Grid, b \in Grid})
        /\ es \in (IF t902 THEN {P(a, b) : a \in Grid, b \in Grid} ELSE {P(4, 4)})
        /\ h \in (IF t909 THEN Heights ELSE {0, 1949999})
        /\ sl \in {G(i) : i \in SwapGrid} /\ sr \in {G(i) : i \in SwapGrid}
        /\ res = [done |-> FALSE]

PegRule(p, hh, t) == Peg(p, hh, t)
SubsidyRule(p, hh, a) == Subsidy909(p, hh, a)
Pools0 == [k \in {K_MS, K_EM, K_ES} |-> IF k = K_MS THEN ms ELSE IF k = K_EM THEN em ELSE es]
Step ==
    LET sw == SwapMany(ms, sl, sr)
        p1 == Put(Pools0, K_MS, sw.pool)
        pg == PegRule(p1, h, t902)
        t9 == IF t909 THEN SubsidyRule(pg.pools, h, t909a) ELSE [pools |-> pg.pools, feeGain |-> Zero, symIn |-> Zero]
    IN [done |-> TRUE, sw |-> sw, p1 |-> p1, pg |-> pg, t9 |-> t9]
Next == res.done = FALSE /\ res' = Step /\ UNCHANGED <<ms, em, es, h, t902, t909, t909a, sl, sr>>

Prod(p) == Mul(p.l, p.r)
NonZero(p) == p.l # Zero /\ p.r # Zero
\* C16 / C09: reserves stay non-zero through swaps, pegging and subsidy
C16_ReservesStay == res.done => /\ NonZero(res.sw.pool) /\ \A k \in {K_MS, K_EM, K_ES} : NonZero(res.pg.pools[k]) /\ NonZero(res.t9.pools[k])
\* C15: one price for the block: the product never decreases; payouts at most 0.995 of the constant-product amount
C15_Swap == res.done => /\ Geq(Prod(res.sw.pool), Prod(ms))
                        /\ Leq(Mul(Mul(res.sw.rw, SatAdd(ms.l, sl)), N(1000)), Mul(Mul(sl, SatAdd(ms.r, sr)), N(995)))
                        /\ Leq(Mul(Mul(res.sw.lw, SatAdd(ms.r, sr)), N(1000)), Mul(Mul(sr, SatAdd(ms.l, sl)), N(995)))
                        /\ Geq(Prod(res.pg.pools[K_MS]), Prod(res.p1[K_MS]))
                        /\ Geq(Prod(res.t9.pools[K_MS]), Prod(res.pg.pools[K_MS])) /\ Geq(Prod(res.t9.pools[K_ES]), Prod(res.pg.pools[K_ES]))
\* C01: pegging creates at most 1/throttle of the gap to the target reserve (200 after TIP-902, 1000 before), on the side that is short only;
\* what is created goes into the pool, and nothing but the (burnt) other side leaves it; other pools are untouched
C01_PegBounded == res.done =>
    LET pg == res.pg  a == res.p1[K_MS]  b == pg.pools[K_MS]  thr == IF t902 THEN 200 ELSE 1000 IN
    /\ Leq(MulSmall(pg.melIn, thr), IF Gt(pg.dmel, a.l) THEN Sub(pg.dmel, a.l) ELSE Zero)
    /\ Leq(MulSmall(pg.symIn, thr), IF Gt(pg.dsym, pg.mid.r) THEN Sub(pg.dsym, pg.mid.r) ELSE Zero)
    /\ pg.mid.l = Add(a.l, pg.melIn) /\ Leq(pg.mid.r, a.r)
    /\ b.r = Add(pg.mid.r, pg.symIn) /\ Leq(b.l, pg.mid.l)
    /\ pg.pools[K_EM] = res.p1[K_EM] /\ pg.pools[K_ES] = res.p1[K_ES]
    \* the nudge never overshoots the reserve it aims at
    /\ Leq(pg.mid.l, BN_Max(pg.dmel, a.l)) /\ Leq(b.r, BN_Max(pg.dsym, pg.mid.r))
\* C01: the subsidy is exactly 2^20 >> number of elapsed halving periods, split between the fee pool's swap and the ERG/SYM pool; the fee pool
\* gains only MEL that left the MEL/SYM reserve
C01_Subsidy == (res.done /\ t909) =>
    LET t9 == res.t9  a == res.pg.pools
        halvings == (IF h > TIP_909 THEN h - TIP_909 ELSE 0) \div TIP909_HALVING
        sched == IF halvings > 20 THEN Zero ELSE Shr(Pow2(20), halvings)
    IN /\ t9.symIn = sched
       /\ Add(Sub(t9.pools[K_MS].r, a[K_MS].r), Sub(t9.pools[K_ES].r, a[K_ES].r)) = sched
       /\ t9.pools[K_MS].l = Sub(a[K_MS].l, t9.feeGain)
       /\ Leq(t9.pools[K_ES].l, a[K_ES].l)
       /\ t9.pools[K_EM] = a[K_EM]
       /\ (t909a => Leq(MulSmall(Sub(t9.pools[K_ES].r, a[K_ES].r), 256), sched))

\* ---- wrong variants ---------------------------------------------------------------------------------------
MutPeg(pools, height, tip902) ==     \* throttle forgotten on the SYM side
    LET g == Peg(pools, height, tip902)
        s1 == g.mid
        d2 == IF Gt(g.dsym, s1.r) THEN Sub(g.dsym, s1.r) ELSE Zero
        s2 == IF Gt(g.dsym, s1.r) THEN SwapMany(s1, Zero, d2).pool ELSE s1
    IN [g EXCEPT !.pools = Put(pools, K_MS, s2), !.symIn = d2]
MutSubsidy(pools, height, tip909a) ==   \* halves one period late
    Subsidy909(pools, IF height >= TIP_909 + TIP909_HALVING THEN height - TIP909_HALVING ELSE height, tip909a)
=============================================================================

----------------------------- MODULE MC_FeeMult -----------------------------
(***************************************************************************)
(* Exhaustive check of the fee multiplier step on every multiplier of the  *)
(* grid (all small values, values around every power of two) and every     *)
(* delta in -128..127, before and after TIP-901.                           *)
(* Wrapping = TRUE swaps in the former unclamped subtraction (mutant).     *)
(***************************************************************************)
EXTENDS Seal
CONSTANTS MaxSmall, Wrapping
Small == { N(i) : i \in 0..MaxSmall }
Pows == UNION { { Add(Pow2(k), N(j)) : j \in 0..3 } \cup { Sub(Pow2(k), N(j)) : j \in 1..(IF k >= 2 THEN 3 ELSE 1) } : k \in 1..127 }
VARIABLES m, d, t, done
Few == {0 - 128, 0 - 127, 0 - 65, 0 - 64, 0 - 63, 0 - 2, 0 - 1, 0, 1, 2, 63, 64, 65, 126, 127}
Init == /\ \/ (m \in Small /\ d \in (0 - 128)..127)
           \/ (m \in Pows /\ d \in Few)
        /\ t \in BOOLEAN /\ done = FALSE
Next == done = FALSE /\ done' = TRUE /\ UNCHANGED <<m, d, t>>
WrapNext == IF d >= 0 THEN Mod(Add(m, FeeMultStep(m, d, t)), Pow2(128)) ELSE Mod(Sub(Add(m, Pow2(128)), FeeMultStep(m, d, t)), Pow2(128))
Out == IF Wrapping THEN WrapNext ELSE NextFeeMult(m, d, t)
Bound == IF t THEN BN_Max(Shr(m, 7), N(2)) ELSE BN_Max(Shr(m, 7), N(2))
AbsDiff(a, b) == IF Geq(a, b) THEN Sub(a, b) ELSE Sub(b, a)
C17_Bounded == Leq(AbsDiff(Out, m), Bound) /\ Leq(Out, U128MAX)
C17_Direction == (d >= 0 => Geq(Out, m)) /\ (d <= 0 => Leq(Out, m))
C17_ZeroDelta == d = 0 => Out = m
C17_ExactStep == LET mm == IF t THEN BN_Max(Shr(m, 7), N(2)) ELSE Shr(m, 7)
                     mag == IF d < 0 THEN 0 - d ELSE d
                     step == Div(MulSmall(mm, mag), N(128))
                 IN IF d >= 0 THEN Out = Clamp128(Add(m, step)) ELSE Out = Monus(m, step)
=============================================================================

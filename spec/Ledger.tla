------------------------------- MODULE Ledger -------------------------------
(***************************************************************************)
(* The melstf ledger as pure operators over state records.                 *)
(*                                                                         *)
(* A state `st` is the record the harness projects from the real state     *)
(* (and the record the exhaustive models carry):                           *)
(*   net, height, feePool, tips, feeMult, dosc : scalars (BigNat / Nat)    *)
(*   coins  : sequence of [id, cov, val, denom, data, h]                   *)
(*   pools  : sequence of [key |-> [l, r, lb, rb, liq], l, r, acc, liqs]    *)
(*   stakes : sequence of [tx, pk, start, end, syms]                        *)
(*   txset  : sequence of transaction ids                                   *)
(* Hashes are opaque strings; only equality is used.  A coin id is          *)
(* <<txid, index>>.  Denominations are "MEL" "SYM" "ERG" "NEW" "C:<txid>". *)
(* A transaction record carries, besides its fields, oracle facts logged   *)
(* from the primitives: size, covenant hashes, signature / hash facts,     *)
(* decoded stake document, decoded pool key, PoW verdict, marker id.       *)
(***************************************************************************)
EXTENDS MelVM, Codec, Melmint, FiniteSets

RangeS(s) == {s[i] : i \in DOMAIN s}
MapSeq(s, f(_)) == [i \in DOMAIN s |-> f(s[i])]
SumBig(s, f(_)) == FoldSeq(LAMBDA x, acc : Add(f(x), acc), Zero, s)
SumBigSat(s, f(_)) == FoldSeq(LAMBDA x, acc : SatAdd(f(x), acc), Zero, s)
Merge(f, g) == [k \in DOMAIN f \cup DOMAIN g |-> IF k \in DOMAIN g THEN g[k] ELSE f[k]]
RestrictTo(f, S) == [k \in DOMAIN f \cap S |-> f[k]]
EmptyFn == [x \in {} |-> 0]

\* ---- TIP activation ------------------------------------------------------------
TipOn(net, h, act) == IF net = NET_MAINNET THEN h >= act ELSE IF net = NET_TESTNET THEN h >= TESTNET_TIPS ELSE TRUE
Tip901(net, h) == TipOn(net, h, TIP_901)
Tip902(net, h) == TipOn(net, h, TIP_902)
Tip906(net, h) == TipOn(net, h, TIP_906)
Tip909(net, h) == TipOn(net, h, TIP_909)
Tip909a(net, h) == TipOn(net, h, TIP_909A)
LegacyNet(net) == net = NET_MAINNET \/ net = NET_TESTNET

\* ---- observed state -> maps ------------------------------------------------------
CoinRec(c) == [cov |-> c.cov, val |-> c.val, denom |-> c.denom, data |-> c.data, h |-> c.h]
CoinMap(st) == [k \in {c.id : c \in RangeS(st.coins)} |-> CoinRec(CHOOSE c \in RangeS(st.coins) : c.id = k)]
PoolKeyOf(p) == <<p.key.l, p.key.r>>
PoolMap(st) == [k \in {PoolKeyOf(p) : p \in RangeS(st.pools)} |->
                  LET p == CHOOSE p \in RangeS(st.pools) : PoolKeyOf(p) = k IN [l |-> p.l, r |-> p.r, acc |-> p.acc, liqs |-> p.liqs]]
StakeMap(st) == [k \in {s.tx : s \in RangeS(st.stakes)} |->
                  LET s == CHOOSE s \in RangeS(st.stakes) : s.tx = k IN [pk |-> s.pk, start |-> s.start, end |-> s.end, syms |-> s.syms]]
HistMap(st) == [h \in {x[1] : x \in RangeS(st.hist)} |-> (CHOOSE x \in RangeS(st.hist) : x[1] = h)[2]]

SeqOfCoinMap(cm) == LET ids == SetToSeq(DOMAIN cm) IN
    [i \in DOMAIN ids |-> [id |-> ids[i], cov |-> cm[ids[i]].cov, val |-> cm[ids[i]].val, denom |-> cm[ids[i]].denom, data |-> cm[ids[i]].data, h |-> cm[ids[i]].h]]

\* ---- transactions ------------------------------------------------------------------
OutDenom(tx, o) == IF o.denom = "NEW" THEN "C:" \o tx.id ELSE o.denom
CreatedIdx(tx) == {j \in DOMAIN tx.outs : tx.outs[j].cov # DESTROY_COV}
CreatedIds(tx) == { <<tx.id, j - 1>> : j \in CreatedIdx(tx) }
CreatedCoin(tx, j, h) == [cov |-> tx.outs[j].cov, val |-> tx.outs[j].val, denom |-> OutDenom(tx, tx.outs[j]), data |-> tx.outs[j].data, h |-> h]
CreatedFn(tx, h) == [cid \in CreatedIds(tx) |-> CreatedCoin(tx, cid[2] + 1, h)]
BatchCreatedIds(b) == UNION { CreatedIds(b[i]) : i \in DOMAIN b }
InputIds(tx) == {c.id : c \in RangeS(tx.ins)}
AllInputs(b) == UNION { InputIds(b[i]) : i \in DOMAIN b }
CreatorOf(b, cid) == CHOOSE i \in DOMAIN b : b[i].id = cid[1] /\ cid \in CreatedIds(b[i])
Lookup(b, cm, h, cid) == IF cid \in BatchCreatedIds(b) THEN CreatedCoin(b[CreatorOf(b, cid)], cid[2] + 1, h) ELSE cm[cid]

WellFormed(tx) == /\ Len(tx.outs) <= 255 /\ Leq(tx.fee, MAXCOIN)
                  /\ \A j \in DOMAIN tx.outs : Leq(tx.outs[j].val, MAXCOIN)
\* the declared outputs of one denomination (plus the fee for MEL) must be representable
DeclDenoms(tx) == { tx.outs[j].denom : j \in DOMAIN tx.outs } \cup {"MEL"}
OutTotal(tx, d) == Add(SumBig(tx.outs, LAMBDA o : IF o.denom = d THEN o.val ELSE Zero), IF d = "MEL" THEN tx.fee ELSE Zero)
NoOutputOverflow(tx) == \A d \in DeclDenoms(tx) : Leq(OutTotal(tx, d), U128MAX)

Resolvable(b, cm) == \A cid \in AllInputs(b) : cid \in BatchCreatedIds(b) \/ cid \in DOMAIN cm
NoDoubleSpend(b) ==
    LET flat == UNION { { <<i, j>> : j \in DOMAIN b[i].ins } : i \in DOMAIN b }
    IN \A p, q \in flat : p # q => b[p[1]].ins[p[2]].id # b[q[1]].ins[q[2]].id

\* ---- covenant evaluation in the input's own environment ----------------------------------
CoinIdV(c)   == VecV(<<BytesV(c.txb), IntV(FromInt(c.idx))>>)
CoinDataV(o) == VecV(<<BytesV(o.covb), IntV(o.val), BytesV(o.denomb), BytesV(o.data)>>)
TxV(tx) == VecV(<<IntV(FromInt(tx.kind)),
                  VecV(MapSeq(tx.ins, CoinIdV)),
                  VecV(MapSeq(tx.outs, CoinDataV)),
                  IntV(tx.fee),
                  VecV(MapSeq(tx.covs, LAMBDA c : BytesV(c.bytes))),
                  BytesV(tx.data),
                  VecV(MapSeq(tx.sigs, BytesV))>>)
HeaderV(hd) == VecV(<<IntV(FromInt(hd.net)), BytesV(hd.prevb), IntV(FromInt(hd.height)), BytesV(hd.histb), BytesV(hd.coinsb),
                      BytesV(hd.txsb), IntV(hd.feePool), IntV(hd.feeMult), IntV(hd.dosc), BytesV(hd.poolsb), BytesV(hd.stakesb)>>)
\* env: [ptxb, pidx, covb, val, denomb, data, h, sidx, hdr]
HeapFromEnv(tx, env) ==
    (0 :> TxV(tx)) @@ (1 :> BytesV(tx.hashb))
    @@ (2 :> BytesV(env.ptxb)) @@ (3 :> IntV(FromInt(env.pidx))) @@ (4 :> BytesV(env.covb))
    @@ (5 :> IntV(env.val)) @@ (6 :> BytesV(env.denomb)) @@ (7 :> BytesV(env.data))
    @@ (8 :> IntV(FromInt(env.h))) @@ (9 :> IntV(FromInt(env.sidx))) @@ (10 :> HeaderV(env.hdr))
OracleOf(f) == [hash |-> [x \in {g.x : g \in RangeS(f.hash)} |-> (CHOOSE g \in RangeS(f.hash) : g.x = x).h],
                sig  |-> [k \in {<<g.msg, g.pk, g.sig>> : g \in RangeS(f.sig)} |->
                             (CHOOSE g \in RangeS(f.sig) : <<g.msg, g.pk, g.sig>> = k).ok]]
\* bytes of a 32-byte hash given as a hex string are not derivable in TLA+; covenant hash bytes and denomination
\* bytes of the spent coin are looked up from the facts the trace supplies (`bytesOf` maps hex / denom strings to bytes)
CovRun(tx, i, coin, hdr, bytesOf) ==
    LET cands == {c \in RangeS(tx.covs) : c.cov = coin.cov} IN
    IF cands = {} THEN "absent"
    ELSE LET c == CHOOSE c \in cands : TRUE
             d == Decode(c.bytes)
         IN IF ~d.ok THEN "undecodable"
            ELSE LET env == [ptxb |-> tx.ins[i].txb, pidx |-> tx.ins[i].idx, covb |-> bytesOf[coin.cov], val |-> coin.val,
                             denomb |-> bytesOf[coin.denom], data |-> coin.data, h |-> coin.h,
                             sidx |-> (i - 1) % 256,      \* the environment's spender index is one byte: positions wrap at 256 (mirrors CovenantEnv)
                             hdr |-> hdr]
                     out == Run(d.ops, HeapFromEnv(tx, env), OracleOf(tx.facts), 200000)
                 IN IF out.res.t = "missing" THEN "missing"
                    ELSE IF out.res.t \in {"fail", "capped"} THEN "fails"
                    ELSE IF Truthy(out.res) THEN "true" ELSE "false"
CovOK(b, cm, h, tx, i, hdr, bytesOf) == CovRun(tx, i, Lookup(b, cm, h, tx.ins[i].id), hdr, bytesOf) = "true"

\* ---- balance ------------------------------------------------------------------------------
InTotal(b, cm, h, tx, d) ==
    SumBig(tx.ins, LAMBDA c : LET k == Lookup(b, cm, h, c.id) IN IF k.denom = d THEN k.val ELSE Zero)
HasIn(b, cm, h, tx, d) == \E i \in DOMAIN tx.ins : Lookup(b, cm, h, tx.ins[i].id).denom = d
Balanced(b, cm, h, tx) ==
    tx.kind = KIND_FAUCET \/
    \A d \in DeclDenoms(tx) : d = "NEW" \/ (tx.kind = KIND_DOSCMINT /\ d = "ERG")
                              \/ (HasIn(b, cm, h, tx, d) /\ InTotal(b, cm, h, tx, d) = OutTotal(tx, d))

\* ---- fees ---------------------------------------------------------------------------------
CovWeight(c) == LET d == Decode(c.bytes) IN IF d.ok THEN Weight(d.ops) ELSE Zero
TxWeight(tx) == Monus(SatAdd(SatAdd(N(tx.size), SumBig(tx.covs, CovWeight)), N(OUTPUT_PENALTY * Len(tx.outs))), N(OUTPUT_PENALTY * Len(tx.ins)))
MinFee(tx, feeMult) == Shr(SatMul(TxWeight(tx), feeMult), FEE_SHIFT)

\* ---- stakes --------------------------------------------------------------------------------
Epoch(h) == h \div STAKE_EPOCH
StakeExamined(net, h) == ~(LegacyNet(net) /\ h < LEGACY_STAKE_REG)
StakeLockActive(net, h) == ~(LegacyNet(net) /\ h < LEGACY_STAKE_LOCK)
\* "ok" = not a stake or acceptable; "reject" = the batch must be rejected
StakeShapeOK(tx, net, h) ==
    (tx.kind = KIND_STAKE /\ StakeExamined(net, h)) => (tx.stakedoc.ok /\ Len(tx.outs) >= 1 /\ tx.outs[1].denom = "SYM")
StakeRegisters(tx, net, h) ==
    /\ tx.kind = KIND_STAKE /\ StakeExamined(net, h) /\ tx.stakedoc.ok /\ Len(tx.outs) >= 1 /\ tx.outs[1].denom = "SYM"
    /\ Gt(tx.stakedoc.start, N(Epoch(h))) /\ Gt(tx.stakedoc.end, tx.stakedoc.start) /\ tx.stakedoc.syms = tx.outs[1].val
NewStakes(b, net, h) == [id \in {b[i].id : i \in {j \in DOMAIN b : StakeRegisters(b[j], net, h)}} |->
                           LET tx == b[CHOOSE i \in DOMAIN b : b[i].id = id /\ StakeRegisters(b[i], net, h)] IN
                           [pk |-> tx.stakedoc.pk, start |-> tx.stakedoc.start, end |-> tx.stakedoc.end, syms |-> tx.stakedoc.syms]]
Unlocked(b, sm, net, h, tx) ==
    ~StakeLockActive(net, h) \/ \A i \in DOMAIN tx.ins : tx.ins[i].id[1] \notin DOMAIN sm /\ tx.ins[i].id[1] \notin DOMAIN NewStakes(b, net, h)
Votes(sm, e, pk) == SumBig(SetToSeq({k \in DOMAIN sm : sm[k].pk = pk /\ Leq(sm[k].start, N(e)) /\ Gt(sm[k].end, N(e))}), LAMBDA k : sm[k].syms)
TotalVotes(sm, e) == SumBig(SetToSeq({k \in DOMAIN sm : Leq(sm[k].start, N(e)) /\ Gt(sm[k].end, N(e))}), LAMBDA k : sm[k].syms)
UnlockOld(sm, e) == RestrictTo(sm, {k \in DOMAIN sm : Geq(sm[k].end, N(e))})

\* ---- faucets ----------------------------------------------------------------------------------
MarkerId(tx) == <<tx.marker, 0>>
MarkerCoin == [cov |-> DESTROY_COV, val |-> Zero, denom |-> "MEL", data |-> <<>>, h |-> 0]
Grandfathered(tx) == tx.id = GRANDFATHERED_FAUCET
FaucetOK(b, cm, net) ==
    \A i \in DOMAIN b : b[i].kind = KIND_FAUCET =>
        /\ (net = NET_MAINNET => Grandfathered(b[i]))
        /\ MarkerId(b[i]) \notin DOMAIN cm
        /\ (~Grandfathered(b[i]) => \A j \in DOMAIN b : j # i => b[j].id # b[i].id)
Markers(b) == [m \in {MarkerId(b[i]) : i \in {j \in DOMAIN b : b[j].kind = KIND_FAUCET /\ ~Grandfathered(b[j])}} |-> MarkerCoin]

\* ---- ERG minting ------------------------------------------------------------------------------
\* hm: heights -> [dosc] of past headers (fact `hdrs` of the event); returns [ok, speed]
MintWork(tx) == LET w == Pow2(ToInt(tx.mint.difficulty)) IN IF tx.mint.proof = "tip910" THEN SatMul(w, N(100)) ELSE w
MintSpeed(tx, h, coinh) == Div(IF tx.mint.proof = "tip910" THEN Mul(Pow2(ToInt(tx.mint.difficulty)), N(100)) ELSE Pow2(ToInt(tx.mint.difficulty)), N(h - coinh))
MintReward(tx, h, coinh, prevSpeed) ==
    LET real == Clamp128(Div(Mul(Mul(MintWork(tx), MintSpeed(tx, h, coinh)), MICRO), Mul(Mul(prevSpeed, prevSpeed), N(2880))))
    IN Div(Mul(MicroErgsPerDosc(h), real), MICRO)
MintOK(b, cm, net, h, tx, hdrs) ==
    tx.kind = KIND_DOSCMINT =>
      /\ Len(tx.ins) >= 1
      /\ LET coin == Lookup(b, cm, h, tx.ins[1].id) IN
         /\ (net = NET_MAINNET => h - coin.h >= MIN_MINT_AGE)
         /\ coin.h \in DOMAIN hdrs /\ coin.h < h
         /\ tx.mint.decoded /\ tx.mint.parsed /\ tx.mint.proof \in {"legacy", "tip910"}
         /\ (h - 1) \in DOMAIN hdrs
         /\ Leq(OutTotal(tx, "ERG"), MintReward(tx, h, coin.h, hdrs[h - 1].dosc))
NewSpeed(b, cm, h, dosc) ==
    FoldSeq(LAMBDA tx, acc : IF tx.kind = KIND_DOSCMINT THEN BN_Max(acc, MintSpeed(tx, h, Lookup(b, cm, h, tx.ins[1].id).h)) ELSE acc, dosc, b)

\* ---- the acceptance predicate, clause by clause (each clause names the property that demands it) ----
Clauses(b, st, ctx) ==
    LET cm == CoinMap(st)  sm == StakeMap(st)  h == st.height  net == st.net
        wf == \A i \in DOMAIN b : WellFormed(b[i]) /\ NoOutputOverflow(b[i])
        res == Resolvable(b, cm)
        nds == NoDoubleSpend(b)
    IN [ wellformed |-> wf,
         resolvable |-> res,
         nodouble   |-> nds,
         faucet     |-> FaucetOK(b, cm, net),
         stakeshape |-> \A i \in DOMAIN b : StakeShapeOK(b[i], net, h),
         unlocked   |-> \A i \in DOMAIN b : Unlocked(b, sm, net, h, b[i]),
         covenants  |-> res => \A i \in DOMAIN b : \A j \in DOMAIN b[i].ins : CovOK(b, cm, h, b[i], j, ctx.lastHeader, ctx.bytesOf),
         balanced   |-> (res /\ wf) => \A i \in DOMAIN b : Balanced(b, cm, h, b[i]),
         fees       |-> \A i \in DOMAIN b : Geq(b[i].fee, MinFee(b[i], st.feeMult)),
         mint       |-> (res /\ wf) => \A i \in DOMAIN b : MintOK(b, cm, net, h, b[i], ctx.hdrs) ]
AcceptOf(c) == c.wellformed /\ c.resolvable /\ c.nodouble /\ c.faucet /\ c.stakeshape /\ c.unlocked /\ c.covenants /\ c.balanced /\ c.fees /\ c.mint

\* ---- the state after an accepted batch (set semantics: order-free by construction) ---------------
RECURSIVE AllCreated(_, _, _)
AllCreated(b, i, h) == IF i > Len(b) THEN EmptyFn ELSE Merge(CreatedFn(b[i], h), AllCreated(b, i + 1, h))
NextCoins(b, cm, h) ==
    LET m == Merge(Merge(cm, AllCreated(b, 1, h)), Markers(b)) IN RestrictTo(m, DOMAIN m \ AllInputs(b))
\* the implementation's per-transaction rule (insert this transaction's outputs, then remove its inputs), kept as the
\* named deviation operator of known finding / fixed defect "out-of-order spend"
RECURSIVE NextCoinsSeq(_, _, _, _)
NextCoinsSeq(b, i, cs, h) ==
    IF i > Len(b) THEN cs
    ELSE LET mk == IF b[i].kind = KIND_FAUCET /\ ~Grandfathered(b[i]) THEN [m \in {MarkerId(b[i])} |-> MarkerCoin] ELSE EmptyFn
             m == Merge(Merge(cs, mk), CreatedFn(b[i], h))
         IN NextCoinsSeq(b, i + 1, RestrictTo(m, DOMAIN m \ InputIds(b[i])), h)
FeeSum(b, feeMult) == SumBigSat(b, LAMBDA tx : MinFee(tx, feeMult))
TipSum(b, feeMult) == SumBigSat(b, LAMBDA tx : Monus(tx.fee, MinFee(tx, feeMult)))

CountsOf(cm) == [c \in {cm[k].cov : k \in DOMAIN cm} |-> Cardinality({k \in DOMAIN cm : cm[k].cov = c})]
ObservedCounts(st) == [c \in {x.cov : x \in RangeS(st.counts)} |-> (CHOOSE x \in RangeS(st.counts) : x.cov = c).n]

\* ---- supplies (C01) ---------------------------------------------------------------------------------
SupplyCoins(cm, d) == SumBig(SetToSeq({k \in DOMAIN cm : cm[k].denom = d}), LAMBDA k : cm[k].val)
SupplyPools(st, d) == SumBig(st.pools, LAMBDA p : Add(IF p.key.l = d THEN p.l ELSE Zero, IF p.key.r = d THEN p.r ELSE Zero))
Supply(st, d) == Add(Add(SupplyCoins(CoinMap(st), d), SupplyPools(st, d)), IF d = "MEL" THEN Add(st.feePool, st.tips) ELSE Zero)
DenomsOf(st) == {c.denom : c \in RangeS(st.coins)} \cup UNION {{p.key.l, p.key.r} : p \in RangeS(st.pools)} \cup {"MEL", "SYM", "ERG"}
\* what a batch may issue, by the explicit rules only
IssuedByBatch(b, st, d) ==
    SumBig(b, LAMBDA tx :
        Add(Add(IF tx.kind = KIND_FAUCET /\ (st.net # NET_MAINNET)
                THEN Add(SumBig(tx.outs, LAMBDA o : IF OutDenom(tx, o) = d /\ o.cov # DESTROY_COV THEN o.val ELSE Zero), IF d = "MEL" THEN tx.fee ELSE Zero)
                ELSE Zero,
                IF d = "C:" \o tx.id THEN SumBig(tx.outs, LAMBDA o : IF o.denom = "NEW" THEN o.val ELSE Zero) ELSE Zero),
            IF tx.kind = KIND_DOSCMINT /\ d = "ERG" THEN SumBig(tx.outs, LAMBDA o : IF o.denom = "ERG" THEN o.val ELSE Zero) ELSE Zero))
=============================================================================

-------------------------------- MODULE MelVM --------------------------------
(***************************************************************************)
(* Reference semantics of the MelVM covenant interpreter.                  *)
(*   Value  == [t |-> "i", v |-> BigNat] | [t |-> "b", v |-> Seq(0..255)]  *)
(*           | [t |-> "v", v |-> Seq(Value)]                               *)
(*   OpCode == [op |-> name, ...args]                                      *)
(* Machine state: [stack, heap, pc, loops, steps]; pc is 1-based.          *)
(* `oracle` supplies the two cryptographic primitives as tables.           *)
(***************************************************************************)
EXTENDS BigNat, TLC

CONSTANT W            \* word width in limbs: 32 for the real machine

IntV(n)   == [t |-> "i", v |-> n]
BytesV(b) == [t |-> "b", v |-> b]
VecV(s)   == [t |-> "v", v |-> s]
IsInt(x)   == x.t = "i"
IsBytes(x) == x.t = "b"
IsVec(x)   == x.t = "v"
True1  == IntV(<<1>>)
False0 == IntV(<<>>)
Bool(b) == IF b THEN True1 ELSE False0
Truthy(x) == IF IsInt(x) THEN x.v # <<>> ELSE TRUE

FV == [t |-> "fail", v |-> <<>>]      \* failed operator body
\* an oracle fact the trace did not supply: the run is abandoned with this marker as its result
\* (the implementation never asked for it, so the two executions have already diverged)
MissingV == [t |-> "missing", v |-> <<>>]
IsFV(r) == r.t = "fail" \/ r.t = "missing"
FailSt == [ok |-> FALSE, why |-> "fail"]              \* failed machine state
MissSt == [ok |-> FALSE, why |-> "missing"]

\* u16 conversion of an Int value: -1 when out of range
U16(x) == IF Len(x.v) > 2 THEN 0 - 1 ELSE ToInt(x.v)
LowByte(x) == Limb(x.v, 1)

\* --- stack helpers: top of stack is the LAST element ----------------------
Top(s)   == s[Len(s)]
Pop(s)   == SubSeq(s, 1, Len(s) - 1)
Top2(s)  == s[Len(s) - 1]
Top3(s)  == s[Len(s) - 2]
PopN(s, n) == SubSeq(s, 1, Len(s) - n)

\* result of an operator body: either FV or a value to push
FailOf(r) == IF r.t = "missing" THEN MissSt ELSE FailSt
Mon(st, f(_))   == IF Len(st.stack) < 1 THEN FailSt
                   ELSE LET r == f(Top(st.stack)) IN
                        IF IsFV(r) THEN FailOf(r) ELSE [st EXCEPT !.stack = Append(Pop(st.stack), r)]
Bin(st, f(_,_)) == IF Len(st.stack) < 2 THEN FailSt
                   ELSE LET r == f(Top(st.stack), Top2(st.stack)) IN
                        IF IsFV(r) THEN FailOf(r) ELSE [st EXCEPT !.stack = Append(PopN(st.stack, 2), r)]
Tri(st, f(_,_,_)) == IF Len(st.stack) < 3 THEN FailSt
                   ELSE LET r == f(Top(st.stack), Top2(st.stack), Top3(st.stack)) IN
                        IF IsFV(r) THEN FailOf(r) ELSE [st EXCEPT !.stack = Append(PopN(st.stack, 3), r)]

IntBin(st, g(_,_)) == Bin(st, LAMBDA x, y : IF IsInt(x) /\ IsInt(y) THEN g(x.v, y.v) ELSE FV)

\* --- exponentiation by squaring, exactly as the interpreter counts bits -----
RECURSIVE ExpLoop(_, _, _, _)
ExpLoop(b, e, res, k) ==
    IF e = <<>> THEN IntV(res)
    ELSE IF k = 0 THEN FV
    ELSE LET odd == Limb(e, 1) % 2 = 1
         IN ExpLoop(MulW(b, b, W), Shr(e, 1), IF odd THEN MulW(res, b, W) ELSE res, k - 1)

SliceOf(s, b, e) == IF e > Len(s) \/ e < b THEN <<>> ELSE SubSeq(s, b + 1, e)

\* --- one instruction (without loop bookkeeping) ------------------------------
\* returns FailSt or the next state; pc already advanced past the instruction
Exec(st0, o, oracle) ==
  LET st == [st0 EXCEPT !.pc = st0.pc + 1] IN
  CASE o.op = "Noop" -> st
    [] o.op = "Add" -> IntBin(st, LAMBDA x, y : IntV(AddW(x, y, W)))
    [] o.op = "Sub" -> IntBin(st, LAMBDA x, y : IntV(SubW(x, y, W)))
    [] o.op = "Mul" -> IntBin(st, LAMBDA x, y : IntV(MulW(x, y, W)))
    [] o.op = "Div" -> IntBin(st, LAMBDA x, y : IF y = <<>> THEN FV ELSE IntV(Div(x, y)))
    [] o.op = "Rem" -> IntBin(st, LAMBDA x, y : IF y = <<>> THEN FV ELSE IntV(Mod(x, y)))
    [] o.op = "Exp" -> IntBin(st, LAMBDA b, e : ExpLoop(b, e, <<1>>, o.k + 1))
    [] o.op = "And" -> IntBin(st, LAMBDA x, y : IntV(AndW(x, y, W)))
    [] o.op = "Or"  -> IntBin(st, LAMBDA x, y : IntV(OrW(x, y, W)))
    [] o.op = "Xor" -> IntBin(st, LAMBDA x, y : IntV(XorW(x, y, W)))
    [] o.op = "Not" -> Mon(st, LAMBDA x : IF IsInt(x) THEN IntV(NotW(x.v, W)) ELSE FV)
    [] o.op = "Eql" -> IntBin(st, LAMBDA x, y : Bool(x = y))
    [] o.op = "Lt"  -> IntBin(st, LAMBDA x, y : Bool(Lt(x, y)))
    [] o.op = "Gt"  -> IntBin(st, LAMBDA x, y : Bool(Gt(x, y)))
    \* shift amount is taken modulo the word size in bits (wrapping_shl / wrapping_shr)
    [] o.op = "Shl" -> IntBin(st, LAMBDA x, off : IntV(ShlW(x, Limb(off, 1) % (8 * W), W)))
    [] o.op = "Shr" -> IntBin(st, LAMBDA x, off : IntV(Shr(x, Limb(off, 1) % (8 * W))))
    [] o.op = "Hash" -> Mon(st, LAMBDA x : IF ~IsBytes(x) \/ Len(x.v) > o.n THEN FV
                                            ELSE IF x.v \in DOMAIN oracle.hash THEN BytesV(oracle.hash[x.v]) ELSE MissingV)
    [] o.op = "SigEOk" -> Tri(st, LAMBDA msg, pk, sig :
            IF ~IsBytes(pk) THEN FV
            ELSE IF Len(pk.v) > 32 THEN False0
            ELSE IF Len(pk.v) # 32 THEN FV
            ELSE IF ~IsBytes(msg) \/ Len(msg.v) > o.n THEN FV
            ELSE IF ~IsBytes(sig) THEN FV
            ELSE IF Len(sig.v) > 64 THEN False0
            ELSE IF <<msg.v, pk.v, sig.v>> \in DOMAIN oracle.sig THEN Bool(oracle.sig[<<msg.v, pk.v, sig.v>>]) ELSE MissingV)
    [] o.op = "Store" ->
            IF Len(st.stack) < 1 \/ ~IsInt(Top(st.stack)) \/ U16(Top(st.stack)) < 0 THEN FailSt
            ELSE IF Len(st.stack) < 2 THEN FailSt
            ELSE [st EXCEPT !.stack = PopN(st.stack, 2),
                            !.heap = [a \in DOMAIN st.heap \cup {U16(Top(st.stack))} |->
                                        IF a = U16(Top(st.stack)) THEN Top2(st.stack) ELSE st.heap[a]]]
    [] o.op = "Load" ->
            IF Len(st.stack) < 1 \/ ~IsInt(Top(st.stack)) \/ U16(Top(st.stack)) < 0 THEN FailSt
            ELSE IF U16(Top(st.stack)) \notin DOMAIN st.heap THEN FailSt
            ELSE [st EXCEPT !.stack = Append(Pop(st.stack), st.heap[U16(Top(st.stack))])]
    [] o.op = "StoreImm" ->
            IF Len(st.stack) < 1 THEN FailSt
            ELSE [st EXCEPT !.stack = Pop(st.stack),
                            !.heap = [a \in DOMAIN st.heap \cup {o.a} |->
                                        IF a = o.a THEN Top(st.stack) ELSE st.heap[a]]]
    [] o.op = "LoadImm" ->
            IF o.a \notin DOMAIN st.heap THEN FailSt
            ELSE [st EXCEPT !.stack = Append(st.stack, st.heap[o.a])]
    \* vectors
    [] o.op = "VRef" -> Bin(st, LAMBDA vec, idx :
            IF ~IsInt(idx) \/ U16(idx) < 0 \/ ~IsVec(vec) \/ U16(idx) >= Len(vec.v) THEN FV
            ELSE vec.v[U16(idx) + 1])
    [] o.op = "VSet" -> Tri(st, LAMBDA vec, idx, val :
            IF ~IsInt(idx) \/ U16(idx) < 0 \/ ~IsVec(vec) \/ U16(idx) >= Len(vec.v) THEN FV
            ELSE VecV([vec.v EXCEPT ![U16(idx) + 1] = val]))
    [] o.op = "VAppend" -> Bin(st, LAMBDA v1, v2 :
            IF ~IsVec(v1) \/ ~IsVec(v2) THEN FV ELSE VecV(v1.v \o v2.v))
    [] o.op = "VSlice" -> Tri(st, LAMBDA vec, b, e :
            IF ~IsInt(b) \/ U16(b) < 0 \/ ~IsInt(e) \/ U16(e) < 0 \/ ~IsVec(vec) THEN FV
            ELSE VecV(SliceOf(vec.v, U16(b), U16(e))))
    [] o.op = "VLength" -> Mon(st, LAMBDA x : IF IsVec(x) THEN IntV(FromInt(Len(x.v))) ELSE FV)
    [] o.op = "VEmpty" -> [st EXCEPT !.stack = Append(st.stack, VecV(<<>>))]
    [] o.op = "VPush" -> Bin(st, LAMBDA vec, item : IF IsVec(vec) THEN VecV(Append(vec.v, item)) ELSE FV)
    [] o.op = "VCons" -> Bin(st, LAMBDA item, vec : IF IsVec(vec) THEN VecV(<<item>> \o vec.v) ELSE FV)
    \* byte strings
    [] o.op = "BEmpty" -> [st EXCEPT !.stack = Append(st.stack, BytesV(<<>>))]
    [] o.op = "BPush" -> Bin(st, LAMBDA vec, val :
            IF IsBytes(vec) /\ IsInt(val) THEN BytesV(Append(vec.v, LowByte(val))) ELSE FV)
    [] o.op = "BCons" -> Bin(st, LAMBDA item, vec :
            IF IsBytes(vec) /\ IsInt(item) THEN BytesV(<<LowByte(item)>> \o vec.v) ELSE FV)
    [] o.op = "BRef" -> Bin(st, LAMBDA vec, idx :
            IF ~IsInt(idx) \/ U16(idx) < 0 \/ ~IsBytes(vec) \/ U16(idx) >= Len(vec.v) THEN FV
            ELSE IntV(FromInt(vec.v[U16(idx) + 1])))
    [] o.op = "BSet" -> Tri(st, LAMBDA vec, idx, val :
            IF ~IsInt(idx) \/ U16(idx) < 0 \/ ~IsBytes(vec) \/ U16(idx) >= Len(vec.v) \/ ~IsInt(val) THEN FV
            ELSE BytesV([vec.v EXCEPT ![U16(idx) + 1] = LowByte(val)]))
    [] o.op = "BAppend" -> Bin(st, LAMBDA v1, v2 :
            IF ~IsBytes(v1) \/ ~IsBytes(v2) THEN FV ELSE BytesV(v1.v \o v2.v))
    [] o.op = "BSlice" -> Tri(st, LAMBDA vec, b, e :
            IF ~IsInt(b) \/ U16(b) < 0 \/ ~IsInt(e) \/ U16(e) < 0 \/ ~IsBytes(vec) THEN FV
            ELSE BytesV(SliceOf(vec.v, U16(b), U16(e))))
    [] o.op = "BLength" -> Mon(st, LAMBDA x : IF IsBytes(x) THEN IntV(FromInt(Len(x.v))) ELSE FV)
    \* control flow: forward-only relative jumps
    [] o.op = "Bez" -> IF Len(st.stack) < 1 THEN FailSt
                       ELSE LET t == Top(st.stack) IN
                            [st EXCEPT !.stack = Pop(st.stack),
                                       !.pc = IF IsInt(t) /\ t.v = <<>> THEN st.pc + o.k ELSE st.pc]
    [] o.op = "Bnz" -> IF Len(st.stack) < 1 THEN FailSt
                       ELSE LET t == Top(st.stack) IN
                            [st EXCEPT !.stack = Pop(st.stack),
                                       !.pc = IF IsInt(t) /\ t.v = <<>> THEN st.pc ELSE st.pc + o.k]
    [] o.op = "Jmp" -> [st EXCEPT !.pc = st.pc + o.k]
    [] o.op = "Loop" ->
            IF o.n > 0
            THEN IF st.loops # <<>> /\ st.pc + o.m - 1 > st.loops[Len(st.loops)].end THEN FailSt
                 ELSE [st EXCEPT !.loops = Append(st.loops, [begin |-> st.pc, end |-> st.pc + o.m - 1, left |-> o.n - 1])]
            ELSE [st EXCEPT !.pc = st.pc + o.m]
    \* conversions
    [] o.op = "ItoB" -> Mon(st, LAMBDA x : IF IsInt(x) THEN BytesV(ToBytesBE(x.v, W)) ELSE FV)
    [] o.op = "BtoI" -> Mon(st, LAMBDA x : IF IsBytes(x) /\ Len(x.v) = W THEN IntV(FromBytesBE(x.v)) ELSE FV)
    [] o.op = "TypeQ" -> Mon(st, LAMBDA x : IF IsInt(x) THEN IntV(<<>>) ELSE IF IsBytes(x) THEN IntV(<<1>>) ELSE IntV(<<2>>))
    [] o.op = "PushB" -> [st EXCEPT !.stack = Append(st.stack, BytesV(o.b))]
    [] o.op = "PushI" -> [st EXCEPT !.stack = Append(st.stack, IntV(o.i))]
    [] o.op = "PushIC" -> [st EXCEPT !.stack = Append(st.stack, IntV(o.i))]
    [] o.op = "Dup" -> IF Len(st.stack) < 1 THEN FailSt ELSE [st EXCEPT !.stack = Append(st.stack, Top(st.stack))]

\* --- loop bookkeeping after every instruction (update_pc_state) -------------
RECURSIVE UpdateLoops(_, _)
\* returns <<pc, loops>>
UpdateLoops(pc, loops) ==
    IF loops = <<>> THEN <<pc, loops>>
    ELSE LET s == loops[Len(loops)]
             rest == SubSeq(loops, 1, Len(loops) - 1)
         IN IF pc > s.end
            THEN IF s.left > 0 /\ pc - s.end = 1
                 THEN <<s.begin, Append(rest, [s EXCEPT !.left = s.left - 1])>>
                 ELSE UpdateLoops(pc, rest)
            ELSE <<pc, loops>>

InitState(heap) == [ok |-> TRUE, why |-> "", stack |-> <<>>, heap |-> heap, pc |-> 1, loops |-> <<>>, steps |-> 0,
                    pcsum |-> 0, maxdepth |-> 0]
PCMOD == 1000003

\* one instruction; a failing instruction leaves a failed state that keeps the counters
Step(st, prog, oracle) ==
    LET r == Exec(st, prog[st.pc], oracle) IN
    IF ~r.ok THEN [st EXCEPT !.ok = FALSE, !.why = r.why, !.steps = st.steps + 1]
    ELSE LET u == UpdateLoops(r.pc, r.loops)
         IN [r EXCEPT !.pc = u[1], !.loops = u[2], !.steps = st.steps + 1,
                      !.pcsum = (st.pcsum + (u[1] - 1)) % PCMOD,          \* the implementation's pc is 0-based
                      !.maxdepth = MaxI(st.maxdepth, Len(u[2]))]

Halted(st, prog) == ~st.ok \/ st.pc > Len(prog)
\* Runs up to k * 256^lvl instructions.  Three nested levels keep TLC's evaluation stack shallow
\* (a recursion as deep as the number of executed instructions makes every JVM garbage collection scan
\* a huge stack, which is quadratic).
RECURSIVE RunN(_, _, _, _, _)
RunN(st, prog, oracle, lvl, k) ==
    IF k = 0 \/ Halted(st, prog) THEN st
    ELSE RunN(IF lvl = 0 THEN Step(st, prog, oracle) ELSE RunN(st, prog, oracle, lvl - 1, 256),
              prog, oracle, lvl, k - 1)

\* returns [res |-> FV | MissingV | capped | Value, steps, pcsum, maxdepth]; at most `fuel` (rounded up to 65536s) instructions
Run(prog, heap, oracle, fuel) ==
    LET st == RunN(InitState(heap), prog, oracle, 2, (fuel + 65535) \div 65536)
    IN [res |-> IF ~st.ok THEN (IF st.why = "missing" THEN MissingV ELSE FV)
                ELSE IF st.pc <= Len(prog) THEN [t |-> "capped", v |-> <<>>]
                ELSE IF st.stack = <<>> THEN FV ELSE Top(st.stack),
        steps |-> st.steps, pcsum |-> st.pcsum, maxdepth |-> st.maxdepth]

\* --- weight ---------------------------------------------------------------------
Sat(x) == BN_Min(x, U128MAX)
BaseWeight(o) ==
    CASE o.op \in {"Noop", "Bez", "Bnz", "Jmp", "PushB", "PushI", "PushIC"} -> 1
      [] o.op \in {"Add", "Sub", "And", "Or", "Xor", "Not", "Eql", "Lt", "Gt", "Shl", "Shr",
                   "StoreImm", "LoadImm", "VLength", "VEmpty", "BEmpty", "BLength", "TypeQ", "Dup"} -> 4
      [] o.op \in {"Mul", "Div", "Rem"} -> 6
      [] o.op = "Exp" -> 6 + 10 * (o.k + 1)
      [] o.op = "Hash" -> 50 + o.n
      [] o.op = "SigEOk" -> 100 + o.n
      [] o.op \in {"Store", "Load", "VRef", "BPush", "VPush", "VCons", "BRef", "BAppend", "BCons"} -> 10
      [] o.op \in {"VSet", "BSet"} -> 20
      [] o.op \in {"VAppend", "VSlice", "BSlice", "ItoB", "BtoI"} -> 50

\* S[i][e] = weight of prog[i..e] weighed as a slice that ends at e.
\* Built row by row from the last instruction backwards: O(n^2) table entries.
RECURSIVE WeightRows(_, _, _)
WeightRows(prog, i, rows) ==
    \* rows : function from i+1..n+1 to [e \in 0..n |-> BigNat]
    IF i = 0 THEN rows
    ELSE LET n == Len(prog)
             o == prog[i]
             row == [e \in 0..n |->
                      IF e < i THEN Zero
                      ELSE LET car == IF o.op = "Loop"
                                      THEN Sat(Add(Sat(Mul(rows[i + 1][MinI(i + o.m, e)], FromInt(o.n))), <<1>>))
                                      ELSE FromInt(BaseWeight(o))
                           IN Sat(Add(car, rows[i + 1][e]))]
         IN WeightRows(prog, i - 1, [j \in i..(n + 1) |-> IF j = i THEN row ELSE rows[j]])
Weight(prog) ==
    LET n == Len(prog)
        last == [j \in {n + 1} |-> [e \in 0..n |-> Zero]]
    IN IF n = 0 THEN Zero ELSE WeightRows(prog, n, last)[1][n]
=============================================================================

---------------------------- MODULE Trace_FeeMult ----------------------------
(* Fee multiplier grid and runs (C17): every (multiplier, delta) of the record against Seal!NextFeeMult. *)
EXTENDS Seal, Json, IOUtils
Rec == ndJsonDeserialize(IOEnv.TRACE)
VARIABLES l
Bound(m) == BN_Max(Shr(m, 7), N(2))
AbsDiff(a, b) == IF Geq(a, b) THEN Sub(a, b) ELSE Sub(b, a)
One(m, d, out, panic, tip901) ==
       (IF panic THEN {<<"C17", "sealing with a proposer action panicked (fee multiplier step)">>, <<"C09", "sealing with a proposer action panicked (fee multiplier step)">>} ELSE {})
  \cup (IF ~panic /\ out # NextFeeMult(m, d, tip901) THEN {<<"C17", "fee multiplier after sealing is not: previous + trunc(max(m/128, 2) * delta / 128)">>} ELSE {})
  \cup (IF ~panic /\ Gt(AbsDiff(out, m), Bound(m)) THEN {<<"C17", "fee multiplier moved by more than 1/128 of its value (or 2 units): wrap-around">>} ELSE {})
Verdicts(r) ==
    IF r.ev = "feemult"
    THEN UNION { One(r.m, r.deltas[i], r.outs[i], r.panics[i], Tip901(r.net, r.height)) : i \in DOMAIN r.deltas }
         \cup (IF r.noactionPanic THEN {<<"C09", "sealing without action panicked">>}
               ELSE IF r.noaction # r.m THEN {<<"C17", "a block sealed without a proposer action changed the fee multiplier">>} ELSE {})
    ELSE UNION { One(r.ins[i], r.deltas[i], r.outs[i], r.panics[i], Tip901(r.net, r.height)) : i \in DOMAIN r.deltas }
Init == l = 1
Next == /\ l <= Len(Rec)
        /\ l' = l + 1
        /\ \A v \in Verdicts(Rec[l]) : PrintT(ToJson([k |-> "VERDICT", p |-> v[1], l |-> l, c |-> v[2], kf |-> "", fam |-> Rec[l].fam]))
Post == TLCGet("stats").diameter - 1 = Len(Rec)
=============================================================================

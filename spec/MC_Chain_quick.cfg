CONSTANTS
  W = 32
  MaxHeight = 1
  TipsCarry = FALSE
  OUTPUT_PENALTY <- MC_OUTPUT_PENALTY
  FEE_SHIFT <- MC_FEE_SHIFT
INIT Init
NEXT Next
INVARIANTS C06_HonestAccepted C06_ExactlyCorrect C06_MutationsRejected C07_Linked C08_RestartEquivalent
CHECK_DEADLOCK FALSE

CONSTANTS W = 32  MaxLen = 3
INIT Init
NEXT Next
CHECK_DEADLOCK FALSE
INVARIANT Emit

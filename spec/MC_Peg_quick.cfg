CONSTANTS
  W = 32
  Grid = {1, 4, 7}
  SwapGrid = {0, 3, 6}
  Heights = {0, 950000, 1949999, 1950000, 21950000}
INIT Init
NEXT Next
INVARIANTS C16_ReservesStay C15_Swap C01_PegBounded C01_Subsidy
CHECK_DEADLOCK FALSE

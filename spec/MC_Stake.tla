------------------------------ MODULE MC_Stake ------------------------------
(***************************************************************************)
(* Exhaustive model of staking (C13) with a stake epoch of 2 blocks:       *)
(* stake transactions with every document over start, end in 0..3,         *)
(* matching / non-matching amount, SYM / non-SYM first output, decodable / *)
(* undecodable data; spend attempts of the staked coin and of the change   *)
(* in every block; block boundaries up to MaxHeight.  The transitions use  *)
(* Ledger.tla's StakeShapeOK / StakeRegisters / NewStakes / Unlocked /     *)
(* UnlockOld / Votes (the text the trace validator uses).                  *)
(* LockIndex0Only = TRUE swaps in a lock that covers output 0 only;        *)
(* UnlockEarly = TRUE drops a stake when end <= epoch (mutants).           *)
(***************************************************************************)
EXTENDS Ledger

CONSTANTS MaxHeight, MaxStakes, UnlockEarly, NoBatchLock

MC_STAKE_EPOCH == 2
KEYS == {"k1", "k2"}
\* a stake transaction template: [start, end, amountOk, symOk, decodes, key]
Templates == { [s |-> s, e |-> e, amt |-> a, sym |-> y, dec |-> d, k |-> k] :
                 s \in 0..3, e \in 0..3, a \in BOOLEAN, y \in BOOLEAN, d \in BOOLEAN, k \in {"k1"} }
           \cup { [s |-> 2, e |-> 3, amt |-> TRUE, sym |-> TRUE, dec |-> TRUE, k |-> "k2"] }
IdOf(t) == "s" \o ToString(t.s) \o ToString(t.e) \o (IF t.amt THEN "a" ELSE "x") \o (IF t.sym THEN "y" ELSE "n") \o (IF t.dec THEN "d" ELSE "u") \o t.k
TxOf(t) == [id |-> IdOf(t), kind |-> KIND_STAKE,
            ins |-> <<>>,
            outs |-> <<[denom |-> IF t.sym THEN "SYM" ELSE "MEL", val |-> N(5)], [denom |-> "MEL", val |-> N(1)]>>,
            stakedoc |-> [ok |-> t.dec, pk |-> t.k, start |-> N(t.s), end |-> N(t.e), syms |-> IF t.amt THEN N(5) ELSE N(4)]]
SpendOf(c) == [id |-> "spend", kind |-> KIND_NORMAL, ins |-> <<[id |-> c]>>, outs |-> <<>>, stakedoc |-> [ok |-> FALSE, pk |-> "", start |-> Zero, end |-> Zero, syms |-> Zero]]

VARIABLES height, sm, coins, registered, last
vars == <<height, sm, coins, registered>>
View == vars
NET == 2

DropOld(m, e) == IF UnlockEarly THEN RestrictTo(m, {k \in DOMAIN m : Gt(m[k].end, N(e))}) ELSE UnlockOld(m, e)

Stake(t) ==
    LET tx == TxOf(t) IN
    /\ tx.id \notin {c[1] : c \in coins} /\ tx.id \notin DOMAIN registered
    /\ IF StakeShapeOK(tx, NET, height)
       THEN /\ sm' = Merge(sm, NewStakes(<<tx>>, NET, height))
            /\ coins' = coins \cup {<<tx.id, 0>>, <<tx.id, 1>>}
            /\ registered' = IF StakeRegisters(tx, NET, height) THEN Merge(registered, [x \in {tx.id} |-> [s |-> t.s, e |-> t.e, k |-> t.k, at |-> height]]) ELSE registered
            /\ last' = [act |-> "stake", ok |-> TRUE, t |-> t, c |-> <<"", 0>>]
       ELSE UNCHANGED <<sm, coins, registered>> /\ last' = [act |-> "stake", ok |-> FALSE, t |-> t, c |-> <<"", 0>>]
    /\ UNCHANGED height

\* a stake and a spend of one of its outputs in the same batch (the stake is not in the state yet)
StakeAndSpend(t, idx) ==
    LET tx == TxOf(t)
        sp == SpendOf(<<tx.id, idx>>)
        b == <<tx, sp>>
        ok == StakeShapeOK(tx, NET, height) /\ (NoBatchLock \/ Unlocked(b, sm, NET, height, sp))
    IN /\ tx.id \notin {c[1] : c \in coins} /\ tx.id \notin DOMAIN registered
       /\ last' = [act |-> "stake+spend", ok |-> ok, t |-> t, c |-> <<tx.id, idx>>]
       /\ IF ok THEN /\ sm' = Merge(sm, NewStakes(b, NET, height))
                     /\ coins' = coins \cup {<<tx.id, 1 - idx>>}
                     /\ registered' = IF StakeRegisters(tx, NET, height) THEN Merge(registered, [x \in {tx.id} |-> [s |-> t.s, e |-> t.e, k |-> t.k, at |-> height]]) ELSE registered
               ELSE UNCHANGED <<sm, coins, registered>>
       /\ UNCHANGED height

Spend(c) ==
    LET sp == SpendOf(c)
        ok == Unlocked(<<sp>>, sm, NET, height, sp)
    IN /\ c \in coins
       /\ last' = [act |-> "spend", ok |-> ok, t |-> [s |-> 0], c |-> c]
       /\ coins' = IF ok THEN coins \ {c} ELSE coins
       /\ UNCHANGED <<height, sm, registered>>

NextBlock ==
    /\ height < MaxHeight
    /\ height' = height + 1
    /\ sm' = DropOld(sm, Epoch(height + 1))
    /\ last' = [act |-> "next", ok |-> TRUE, t |-> [s |-> 0], c |-> <<"", 0>>]
    /\ UNCHANGED <<coins, registered>>

Init == height = 0 /\ sm = EmptyFn /\ coins = {} /\ registered = EmptyFn /\ last = [act |-> "init", ok |-> TRUE, t |-> [s |-> 0], c |-> <<"", 0>>]
\* at most MaxStakes stake transactions per behaviour (registered or not)
Room == Cardinality({c[1] : c \in coins} \cup DOMAIN registered) < MaxStakes
Next == \/ \E t \in Templates : Room /\ Stake(t)
        \/ \E t \in Templates, i \in {0, 1} : Room /\ StakeAndSpend(t, i)
        \/ \E c \in coins : Spend(c)
        \/ NextBlock

\* ---- properties, from the statement ------------------------------------------------------------------
\* registers only if: first output SYM equal to the declared amount, starts in a future epoch, ends after it starts
C13_RegistersOnlyIf == [][ \A id \in DOMAIN registered' \ DOMAIN registered :
                              LET r == registered'[id]  t == last'.t IN
                              t.sym /\ t.amt /\ t.dec /\ t.s > Epoch(height) /\ t.e > t.s ]_<<vars, last>>
\* from acceptance through the end of epoch `end` the outputs of a registered stake cannot be spent; afterwards they can
C13_Locked == [][ (last'.act = "spend" /\ last'.c[1] \in DOMAIN registered')
                     => (last'.ok <=> Epoch(height) > registered'[last'.c[1]].e) ]_<<vars, last>>
\* ... including by a transaction in the very batch that carries the stake (the batch is then rejected as a whole)
C13_LockedInBatch == [][ (last'.act = "stake+spend" /\ StakeShapeOK(TxOf(last'.t), NET, height))
                            => (last'.ok <=> ~StakeRegisters(TxOf(last'.t), NET, height)) ]_<<vars, last>>
\* a spend of an output of a transaction that is not a registered stake is never refused by the stake lock
C13_OnlyStakesLocked == [][ (last'.act = "spend" /\ last'.c[1] \notin DOMAIN registered') => last'.ok ]_<<vars, last>>
\* the stake set holds exactly the registered, unexpired stakes
C13_ExactStakeSet == DOMAIN sm = {id \in DOMAIN registered : registered[id].e >= Epoch(height)}
\* voting power in the current epoch: sum of registered stakes with start <= epoch < end
C13_Votes == \A k \in KEYS : LET e == Epoch(height) IN
                Votes(sm, e, k) = N(5 * Cardinality({id \in DOMAIN registered : registered[id].k = k /\ registered[id].s <= e /\ e < registered[id].e}))
=============================================================================

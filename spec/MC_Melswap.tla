----------------------------- MODULE MC_Melswap -----------------------------
(***************************************************************************)
(* Exhaustive model of Melswap settlement on one custom pool MEL/TOK:      *)
(* every block carries every sequence of <= MaxReq requests drawn from     *)
(* swaps on both sides, deposits and withdrawals with amounts 0..MaxAmt    *)
(* (including zero-valued ones, requests of the wrong kind and requests    *)
(* naming the pool in reversed spelling), settled by Seal.tla's phases.    *)
(* CodeShareRule = TRUE swaps in the implementation's former share rule    *)
(* (mutant: TLC must refute C16 with it).                                  *)
(***************************************************************************)
EXTENDS Seal

CONSTANTS MaxReq, MaxAmt, MaxBlocks, CodeShareRule

TOK == "C:tok"
K == <<"MEL", TOK>>
LIQ == "C:liq"
PkOK == [ok |-> TRUE, key |-> [l |-> "MEL", r |-> TOK, lb |-> <<109>>, rb |-> <<200>>, liq |-> LIQ]]
PkRev == [ok |-> TRUE, key |-> [l |-> TOK, r |-> "MEL", lb |-> <<200>>, rb |-> <<109>>, liq |-> LIQ]]   \* reversed spelling
O(v, d) == [cov |-> "T", covb |-> <<1>>, val |-> N(v), denom |-> d, denomb |-> <<2>>, data |-> <<>>]
T(id, k, o, pk) == [id |-> id, kind |-> k, outs |-> o, pk |-> pk]

\* request descriptors
Amts == 0..MaxAmt
ReqU == { [t |-> "swapL", a |-> a] : a \in Amts } \cup { [t |-> "swapR", a |-> a] : a \in Amts }
        \cup { [t |-> "dep", a |-> a, b |-> b] : a \in Amts, b \in Amts }
        \cup { [t |-> "wd", a |-> a] : a \in 1..MaxAmt }
        \cup { [t |-> "fakeL", a |-> MaxAmt], [t |-> "revL", a |-> MaxAmt] }     \* ordinary payment carrying the pool's name; reversed spelling
RECURSIVE Seqs(_, _)
Seqs(S, n) == IF n = 0 THEN {<<>>} ELSE LET shorter == Seqs(S, n - 1) IN shorter \cup { Append(s, x) : s \in shorter, x \in S }

VARIABLES pools, liqheld, height, last
vars == <<pools, liqheld, height>>
View == vars

TxOf(q, i) ==
    LET id == "r" \o ToString(i) IN
    CASE q.t = "swapL" -> T(id, KIND_SWAP, <<O(q.a, "MEL")>>, PkOK)
      [] q.t = "swapR" -> T(id, KIND_SWAP, <<O(q.a, TOK)>>, PkOK)
      [] q.t = "dep"   -> T(id, KIND_DEPOSIT, <<O(q.a, "MEL"), O(q.b, TOK)>>, PkOK)
      [] q.t = "wd"    -> T(id, KIND_WITHDRAW, <<O(q.a, LIQ)>>, PkOK)
      [] q.t = "fakeL" -> T(id, KIND_NORMAL, <<O(q.a, "MEL")>>, PkOK)
      [] q.t = "revL"  -> T(id, KIND_SWAP, <<O(q.a, "MEL")>>, PkRev)
Txs(reqs) == [i \in DOMAIN reqs |-> TxOf(reqs[i], i)]
CoinsOf(txs, h) == FoldSeq(LAMBDA tx, acc : Merge(acc, [cid \in { <<tx.id, j - 1>> : j \in DOMAIN tx.outs } |->
                              [cov |-> "T", val |-> tx.outs[cid[2] + 1].val, denom |-> tx.outs[cid[2] + 1].denom, data |-> <<>>, h |-> h]]), EmptyFn, txs)
\* withdrawals can only redeem liquidity tokens that exist
WdTotal(reqs) == FoldSeq(LAMBDA q, acc : IF q.t = "wd" THEN acc + q.a ELSE acc, 0, reqs)

\* the implementation's former share rule, as a deviation of DepositPool
CodeDeposit(w, reqs, h) ==
    LET p   == IF K \in DOMAIN w.pools THEN w.pools[K] ELSE EmptyPool
        tl  == SumBigSat(reqs, LAMBDA tx : tx.outs[1].val)
        tr  == SumBigSat(reqs, LAMBDA tx : tx.outs[2].val)
        dep == Deposit(p, tl, tr)
        tw  == SatMul(Sqrt(tl), Sqrt(tr))
        newcoin(tx) == [cov |-> "T", val |-> MultiplyFrac(dep.minted, DepWeight(tx), tw), denom |-> LIQ, data |-> <<>>, h |-> h]
        cm2 == FoldSeq(LAMBDA tx, acc : DelCoin(PutCoin(acc, Coin0(tx), newcoin(tx)), Coin1(tx)), w.cm, reqs)
    IN [cm |-> cm2, pools |-> Put(w.pools, K, dep.pool), minted |-> Put(w.minted, LIQ, dep.minted)]

Settle(reqs) ==
    LET txs == Txs(reqs)
        cm0 == CoinsOf(txs, height)
        w1 == DoSwaps(cm0, pools, txs, height)
        deps == SelectSeq(txs, LAMBDA tx : IsDeposit(tx, w1.cm))
        w2 == IF CodeShareRule /\ deps # <<>> THEN CodeDeposit([cm |-> w1.cm, pools |-> w1.pools, minted |-> EmptyFn], deps, height)
              ELSE DoDeposits(w1.cm, w1.pools, txs, height, FALSE)
        w3 == DoWithdrawals(w2.cm, w2.pools, txs, height)
    IN [cm0 |-> cm0, cm |-> w3.cm, pools |-> w3.pools, minted |-> w2.minted, txs |-> txs, afterSwaps |-> w1]

Block(reqs) ==
    /\ height < MaxBlocks
    /\ WdTotal(reqs) <= liqheld
    /\ LET s == Settle(reqs) IN
       /\ pools' = s.pools
       /\ liqheld' = liqheld - WdTotal(reqs) + ToInt(SupplyCoins(RestrictTo(s.cm, {c \in DOMAIN s.cm : s.cm[c].denom = LIQ /\ c \in DOMAIN s.cm0 /\ s.cm0[c].denom # LIQ}), LIQ))
       /\ height' = height + 1
       /\ last' = [reqs |-> reqs, s |-> s, prepools |-> pools, preheld |-> liqheld]
Init == pools = [k \in {K} |-> [l |-> N(6), r |-> N(3), acc |-> Zero, liqs |-> N(6)]] /\ liqheld = 6 /\ height = 0
        /\ last = [reqs |-> <<>>, s |-> [cm0 |-> EmptyFn, cm |-> EmptyFn, pools |-> EmptyFn, minted |-> EmptyFn, txs |-> <<>>, afterSwaps |-> [cm |-> EmptyFn, pools |-> EmptyFn]],
                   prepools |-> EmptyFn, preheld |-> 0]
Next == \E reqs \in Seqs(ReqU, MaxReq) : reqs # <<>> /\ Block(reqs)

\* ---- properties -----------------------------------------------------------------------------------------
PoolOf(ps) == IF K \in DOMAIN ps THEN ps[K] ELSE EmptyPool
\* C16: liquidity tokens outstanding never exceed the pool's recorded liquidity
C16_Backed == Leq(N(liqheld), PoolOf(pools).liqs)
\* C15: swapping never decreases the reserve product; pays out no more than the constant-product amount less 0.5%
C15_Swap == [][ LET s == last'.s
                    p0 == PoolOf(last'.prepools)
                    p1 == PoolOf(s.afterSwaps.pools)
                    sw == SelectSeq(s.txs, LAMBDA tx : tx.kind = KIND_SWAP /\ tx.pk = PkOK /\ tx.outs[1].val # Zero /\ p0.l # Zero /\ p0.r # Zero)
                    inL == SumBig(sw, LAMBDA tx : IF tx.outs[1].denom = "MEL" THEN tx.outs[1].val ELSE Zero)
                    inR == SumBig(sw, LAMBDA tx : IF tx.outs[1].denom = TOK THEN tx.outs[1].val ELSE Zero)
                    outR == SumBig(sw, LAMBDA tx : IF tx.outs[1].denom = "MEL" THEN s.afterSwaps.cm[Coin0(tx)].val ELSE Zero)
                    outL == SumBig(sw, LAMBDA tx : IF tx.outs[1].denom = TOK THEN s.afterSwaps.cm[Coin0(tx)].val ELSE Zero)
                IN /\ Geq(Mul(p1.l, p1.r), Mul(p0.l, p0.r))
                   /\ Geq(Add(p0.l, inL), p1.l) /\ Geq(Sub(Add(p0.l, inL), p1.l), outL)     \* reserves move by what coins paid in, less at least what coins took out
                   /\ Geq(Add(p0.r, inR), p1.r) /\ Geq(Sub(Add(p0.r, inR), p1.r), outR)
                   \* total payout on each side <= 0.995 * in * R1 / L1 (one price for the whole block)
                   /\ Leq(Mul(Mul(outR, Add(p0.l, inL)), N(1000)), Mul(Mul(inL, Add(p0.r, inR)), N(995)))
                   /\ Leq(Mul(Mul(outL, Add(p0.r, inR)), N(1000)), Mul(Mul(inR, Add(p0.l, inL)), N(995)))
                   \* every swapper got the other denomination; nobody else's output was touched
                   /\ \A i \in DOMAIN s.txs : LET tx == s.txs[i] IN
                         IF tx.kind = KIND_SWAP /\ tx.pk = PkOK /\ tx.outs[1].val # Zero /\ p0.l # Zero /\ p0.r # Zero
                         THEN s.afterSwaps.cm[Coin0(tx)].denom = (IF tx.outs[1].denom = "MEL" THEN TOK ELSE "MEL")
                         ELSE s.afterSwaps.cm[Coin0(tx)] = s.cm0[Coin0(tx)] ]_<<vars, last>>
\* C01: per denomination, coins + reserves never increase through settlement (liquidity tokens: only by what deposits mint)
C01_Conserved == [][ LET s == last'.s IN
                     \A d \in {"MEL", TOK} :
                        Leq(Add(SupplyCoins(s.cm, d), IF d = "MEL" THEN PoolOf(s.pools).l ELSE PoolOf(s.pools).r),
                            Add(SupplyCoins(s.cm0, d), IF d = "MEL" THEN PoolOf(last'.prepools).l ELSE PoolOf(last'.prepools).r)) ]_<<vars, last>>
\* C15: ordinary payments and reversed spellings are left exactly as declared
C15_Untouched == [][ \A i \in DOMAIN last'.s.txs : last'.s.txs[i].kind = KIND_NORMAL \/ last'.s.txs[i].pk = PkRev =>
                        \A c \in {Coin0(last'.s.txs[i])} : last'.s.cm[c] = last'.s.cm0[c] ]_<<vars, last>>
=============================================================================

------------------------------- MODULE Gen_VM -------------------------------
(***************************************************************************)
(* spec -> impl: TLC enumerates every MelVM program of length <= MaxLen    *)
(* over the alphabet of the exhaustive model, with operands of the real    *)
(* 256-bit machine, together with the result the specification expects;    *)
(* one JSON line per program.  The harness replays each program on the     *)
(* real interpreter (`vm --fam file`), and the recorded runs go through    *)
(* Trace_VM like any other trace (one judge).                              *)
(***************************************************************************)
EXTENDS MelVM, Json, FiniteSets

CONSTANT MaxLen
N(i) == FromInt(i)
MAXW == Sub(Pow2(256), <<1>>)
Alphabet ==
    { [op |-> "PushIC", i |-> N(0)], [op |-> "PushIC", i |-> N(1)], [op |-> "PushIC", i |-> N(2)], [op |-> "PushIC", i |-> MAXW],
      [op |-> "Add"], [op |-> "Sub"], [op |-> "Mul"], [op |-> "Div"], [op |-> "Rem"], [op |-> "Eql"], [op |-> "Lt"], [op |-> "Gt"], [op |-> "Not"],
      [op |-> "Dup"], [op |-> "BEmpty"], [op |-> "BPush"], [op |-> "BCons"], [op |-> "BAppend"], [op |-> "BLength"], [op |-> "BSlice"], [op |-> "BRef"],
      [op |-> "VEmpty"], [op |-> "VPush"], [op |-> "VCons"], [op |-> "VRef"], [op |-> "VLength"], [op |-> "StoreImm", a |-> 0], [op |-> "LoadImm", a |-> 0],
      [op |-> "Jmp", k |-> 1], [op |-> "Bez", k |-> 1], [op |-> "Bnz", k |-> 2], [op |-> "Exp", k |-> 1], [op |-> "Shl"], [op |-> "Shr"], [op |-> "ItoB"], [op |-> "BtoI"], [op |-> "TypeQ"] }
    \cup { [op |-> "Loop", n |-> n, m |-> m] : n \in 0..2, m \in 0..2 }
Progs == UNION { [1..n -> Alphabet] : n \in 1..MaxLen }
VARIABLES prog, done
Init == prog \in Progs /\ done = FALSE
Next == done = FALSE /\ done' = TRUE /\ UNCHANGED prog
NoOracle == [hash |-> <<>>, sig |-> <<>>]
\* printed once per program (evaluated as an invariant of the initial state)
Emit == done \/ PrintT(ToJson([k |-> "PROG", ops |-> prog, expect |-> Run(prog, [a \in {} |-> 0], NoOracle, 5000).res]))
=============================================================================

CONSTANTS
  W = 32
  MaxHeight = 7
  MaxStakes = 1
  UnlockEarly = FALSE
  NoBatchLock = FALSE
  STAKE_EPOCH <- MC_STAKE_EPOCH
VIEW View
INIT Init
NEXT Next
INVARIANTS C13_ExactStakeSet C13_Votes
PROPERTIES C13_RegistersOnlyIf C13_Locked C13_LockedInBatch C13_OnlyStakesLocked
CHECK_DEADLOCK FALSE

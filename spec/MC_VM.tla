------------------------------- MODULE MC_VM -------------------------------
(***************************************************************************)
(* Exhaustive model of MelVM on an 8-bit word (W = 1): every program of    *)
(* length <= MaxLen over a reduced alphabet, started on the empty heap.    *)
(* Each program is one initial state; the properties are state invariants. *)
(***************************************************************************)
EXTENDS MelVM, SequencesExt, FiniteSets

CONSTANT MaxLen

N(i) == FromInt(i)
Alphabet ==
    { [op |-> "PushIC", i |-> N(0)], [op |-> "PushIC", i |-> N(1)], [op |-> "PushIC", i |-> N(2)], [op |-> "PushIC", i |-> N(255)],
      [op |-> "Add"], [op |-> "Sub"], [op |-> "Mul"], [op |-> "Div"], [op |-> "Rem"], [op |-> "Eql"], [op |-> "Lt"], [op |-> "Not"],
      [op |-> "Dup"], [op |-> "BEmpty"], [op |-> "BPush"], [op |-> "BAppend"], [op |-> "BLength"], [op |-> "BSlice"],
      [op |-> "VEmpty"], [op |-> "VPush"], [op |-> "VRef"], [op |-> "StoreImm", a |-> 0], [op |-> "LoadImm", a |-> 0],
      [op |-> "Jmp", k |-> 1], [op |-> "Bez", k |-> 1], [op |-> "Bnz", k |-> 2], [op |-> "Exp", k |-> 1], [op |-> "Shl"], [op |-> "ItoB"], [op |-> "BtoI"] }
    \cup { [op |-> "Loop", n |-> n, m |-> m] : n \in 0..3, m \in 0..3 }

Progs == UNION { [1..n -> Alphabet] : n \in 1..MaxLen }

VARIABLES prog, done
Init == (\E n \in 1..MaxLen : prog \in [1..n -> Alphabet]) /\ done = FALSE
Next == done = FALSE /\ done' = TRUE /\ UNCHANGED prog

NoOracle == [hash |-> <<>>, sig |-> <<>>]
EmptyHeap == [a \in {} |-> 0]
Out(p) == Run(p, EmptyHeap, NoOracle, 5000)

\* C11: terminates, and within its weight
StepsWithinWeight == LET o == Out(prog) IN o.res.t # "capped" /\ Leq(N(o.steps), Weight(prog))

\* C10: counted loops run their body exactly n times (well-nested, jump-free, loop-free bodies)
Straight(body) == \A i \in DOMAIN body : body[i].op \notin {"Loop", "Jmp", "Bez", "Bnz"}
RECURSIVE Repeat(_, _)
Repeat(body, n) == IF n = 0 THEN <<>> ELSE body \o Repeat(body, n - 1)
LoopTheorem ==
    (prog[1].op = "Loop" /\ prog[1].m >= 1 /\ prog[1].m <= Len(prog) - 1 /\ Straight(SubSeq(prog, 2, 1 + prog[1].m)))
      => LET body == SubSeq(prog, 2, 1 + prog[1].m)
             rest == SubSeq(prog, 2 + prog[1].m, Len(prog))
             unr  == Repeat(body, prog[1].n) \o rest
             a == Out(prog)
             b == IF unr = <<>> THEN [res |-> FV, steps |-> 0] ELSE Out(unr)
         IN a.res = b.res /\ a.steps = b.steps + 1

\* C10: the result is the value on top of the stack; underflow / type errors fail
\* (spot properties that do not depend on the interpreter's text)
EmptyStackFails == (Len(prog) = 1 /\ prog[1].op \in {"Add", "Sub", "Mul", "Div", "Rem", "Eql", "Lt", "Not", "Dup", "BPush", "BAppend",
                        "BLength", "BSlice", "VPush", "VRef", "StoreImm", "Bez", "Bnz", "Exp", "Shl", "ItoB", "BtoI"}) => Out(prog).res = FV
PushIsResult == (Len(prog) = 1 /\ prog[1].op = "PushIC") => Out(prog).res = IntV(prog[1].i)
WrapAround == (Len(prog) = 3 /\ prog[1].op = "PushIC" /\ prog[2].op = "PushIC" /\ prog[3].op = "Add")
                 => Out(prog).res = IntV(N((ToInt(prog[1].i) + ToInt(prog[2].i)) % 256))
DivByZeroFails == (Len(prog) = 3 /\ prog[1].op = "PushIC" /\ prog[1].i = Zero /\ prog[2].op = "PushIC" /\ prog[3].op \in {"Div", "Rem"})
                 => Out(prog).res = FV
\* forward-only: the pc never decreases except at a loop back-edge; checked through the digest: a loop-free program executes <= Len steps
NoLoopNoRepeat == (\A i \in DOMAIN prog : prog[i].op # "Loop") => Out(prog).steps <= Len(prog)
\* vacuity guards (TLC must find states satisfying these)
=============================================================================

CONSTANTS W = 32  MaxSmall = 4096  Wrapping = FALSE
INIT Init
NEXT Next
CHECK_DEADLOCK FALSE
INVARIANTS C17_Bounded C17_Direction C17_ZeroDelta C17_ExactStep

CONSTANTS W = 32  MaxLen = 2
INIT Init
NEXT Next
CHECK_DEADLOCK FALSE
INVARIANT Emit

------------------------------ MODULE MC_Ledger ------------------------------
(***************************************************************************)
(* Exhaustive model of the ledger core: every ordered batch of <= MaxBatch  *)
(* transactions from a small adversarial universe (dependent chain,        *)
(* conflicting spenders, self-conflict, missing input, unbalanced,         *)
(* under-paying, custom-token issuer, destroyed output, faucet and its     *)
(* duplicate, index-bound covenant), seals with and without proposer       *)
(* action, block boundaries.  The transitions are Ledger.tla's operators   *)
(* (the same text the trace validator uses), with shrunken constants.      *)
(* SeqRule = TRUE swaps in the implementation's former per-transaction     *)
(* coin update (mutant: TLC must refute C02/C03 with it).                  *)
(***************************************************************************)
EXTENDS Seal

CONSTANTS MaxBatch, MaxHeight, SeqRule, FeeMultInit

MC_OUTPUT_PENALTY == 2
MC_FEE_SHIFT == 1

\* ---- universe -----------------------------------------------------------------------------------
B1(n) == <<n>>                       \* fake byte strings
CovT == [cov |-> "T", bytes |-> <<242, 1, 1>>]               \* PushIC 1
CovF == [cov |-> "F", bytes |-> <<242, 0>>]                  \* PushIC 0
CovI == [cov |-> "I0", bytes |-> <<66, 0, 9, 242, 0, 36>>]   \* LoadImm 9; PushIC 0; Eql   (spender index = 0)
O(c, v, d) == [cov |-> c, covb |-> B1(1), val |-> N(v), denom |-> d, denomb |-> B1(2), data |-> <<>>]
In(t, i) == [id |-> <<t, i>>, txb |-> B1(3), idx |-> i]
NoPk == [ok |-> FALSE, key |-> [l |-> "", r |-> "", lb |-> <<>>, rb |-> <<>>, liq |-> ""]]
NoStake == [ok |-> FALSE, pk |-> "", start |-> Zero, end |-> Zero, syms |-> Zero]
NoMint == [decoded |-> FALSE, difficulty |-> Zero, parsed |-> FALSE, proof |-> "none"]
T(id, k, i, o, f, cv) == [id |-> id, hashb |-> B1(4), kind |-> k, ins |-> i, outs |-> o, fee |-> N(f), covs |-> cv, data |-> <<>>, sigs |-> <<>>,
                          size |-> 1, facts |-> [hash |-> <<>>, sig |-> <<>>], pk |-> NoPk, stakedoc |-> NoStake, mint |-> NoMint, marker |-> "fdp:" \o id]
U == [t \in {"F1", "A", "B", "C", "D", "E", "G", "H", "N", "X", "I", "J"} |->
  CASE t = "F1" -> T(t, KIND_FAUCET, <<>>, <<O("T", 4, "MEL"), O("I0", 2, "MEL")>>, 0, <<>>)
    [] t = "A"  -> T(t, KIND_NORMAL, <<In("F1", 0)>>, <<O("T", 2, "MEL"), O("T", 2, "MEL")>>, 0, <<CovT>>)
    [] t = "B"  -> T(t, KIND_NORMAL, <<In("A", 0)>>, <<O("T", 2, "MEL")>>, 0, <<CovT>>)
    [] t = "C"  -> T(t, KIND_NORMAL, <<In("A", 0)>>, <<O(DESTROY_COV, 1, "MEL"), O("T", 1, "MEL")>>, 0, <<CovT>>)   \* conflicts with B; burns 1 (first output: the survivor keeps index 1)
    [] t = "D"  -> T(t, KIND_NORMAL, <<In("A", 1), In("B", 0)>>, <<O("T", 3, "MEL")>>, 1, <<CovT>>)                  \* depends on A and B, tips 1
    [] t = "E"  -> T(t, KIND_NORMAL, <<In("A", 1)>>, <<O("T", 3, "MEL")>>, 0, <<CovT>>)                               \* unbalanced
    [] t = "G"  -> T(t, KIND_NORMAL, <<In("gen", 0), In("gen", 0)>>, <<O("T", 6, "MEL")>>, 0, <<CovT>>)               \* same input twice
    [] t = "H"  -> T(t, KIND_NORMAL, <<In("A", 0), In("A", 0)>>, <<O("T", 4, "MEL")>>, 0, <<CovT>>)                   \* a coin that may be created in the same batch, twice
    [] t = "N"  -> T(t, KIND_NORMAL, <<In("gen", 0)>>, <<O("T", 3, "MEL"), O("T", 5, "NEW")>>, 0, <<CovT>>)           \* issues a custom token
    [] t = "X"  -> T(t, KIND_NORMAL, <<In("nope", 0)>>, <<O("T", 1, "MEL")>>, 0, <<CovT>>)                            \* missing input
    [] t = "I"  -> T(t, KIND_NORMAL, <<In("A", 1), In("F1", 1)>>, <<O("T", 4, "MEL")>>, 0, <<CovT, CovI>>)            \* index-bound coin spent at position 1
    [] t = "J"  -> T(t, KIND_NORMAL, <<In("F1", 1), In("A", 1)>>, <<O("F", 4, "MEL")>>, 0, <<CovT, CovI>>)]           \* ... at position 0; pays to an unspendable coin
TxIds == DOMAIN U

VARIABLES cm, feePool, tips, feeMult, txset, height, phase, last
vars == <<cm, feePool, tips, feeMult, txset, height, phase>>
allvars == <<vars, last>>
View == vars

CoinSeq(m) == LET ids == SetToSeq(DOMAIN m) IN [i \in DOMAIN ids |-> [id |-> ids[i], cov |-> m[ids[i]].cov, val |-> m[ids[i]].val, denom |-> m[ids[i]].denom,
                                                                           data |-> m[ids[i]].data, h |-> m[ids[i]].h]]
MCNet == 2
St == [net |-> MCNet, height |-> height, feePool |-> feePool, tips |-> tips, feeMult |-> feeMult, dosc |-> N(1000000), coins |-> CoinSeq(cm),
       counts |-> <<>>, pools |-> <<>>, stakes |-> <<>>, txset |-> SetToSeq(txset), hist |-> <<>>, unknown |-> <<>>, unknownPools |-> <<>>]
Hdr0 == [net |-> 2, prevb |-> <<>>, height |-> 0, histb |-> <<>>, coinsb |-> <<>>, txsb |-> <<>>, feePool |-> Zero, feeMult |-> Zero, dosc |-> Zero, poolsb |-> <<>>, stakesb |-> <<>>]
Names == {"T", "F", "I0", DESTROY_COV, "MEL", "SYM", "ERG"} \cup {"C:" \o t : t \in TxIds}
Ctx0 == [lastHeader |-> Hdr0, bytesOf |-> [n \in Names |-> B1(9)], hdrs |-> EmptyFn]

RECURSIVE Seqs(_, _)
Seqs(S, n) == IF n = 0 THEN {<<>>} ELSE LET shorter == Seqs(S, n - 1) IN shorter \cup { Append(s, x) : s \in shorter, x \in S }
Batches == { s \in Seqs(TxIds, MaxBatch) : s # <<>> }
TxSeq(b) == [i \in DOMAIN b |-> U[b[i]]]

Accept(b) == AcceptOf(Clauses(TxSeq(b), St, Ctx0))
Coins2(b) == IF SeqRule THEN NextCoinsSeq(TxSeq(b), 1, cm, height) ELSE NextCoins(TxSeq(b), cm, height)

ApplyBatch(b) ==
    /\ phase = "unsealed"
    /\ last' = [act |-> "batch", b |-> b, ok |-> Accept(b), pre |-> St]
    /\ IF Accept(b)
       THEN /\ cm' = Coins2(b)
            /\ feePool' = SatAdd(feePool, FeeSum(TxSeq(b), feeMult))
            /\ tips' = SatAdd(tips, TipSum(TxSeq(b), feeMult))
            /\ txset' = txset \cup RangeS(b)
            /\ UNCHANGED <<height, phase, feeMult>>
       ELSE UNCHANGED vars

RewardId(h) == <<"reward", h>>
DoSeal(withAction) ==
    /\ phase = "unsealed"
    /\ phase' = "sealed"
    /\ last' = [act |-> "seal", b |-> <<>>, ok |-> withAction, pre |-> St]
    /\ IF withAction
       THEN LET base == Shr(feePool, FEE_SHIFT) IN
            /\ cm' = PutCoin(cm, RewardId(height), [cov |-> "T", val |-> Add(base, tips), denom |-> "MEL", data |-> <<>>, h |-> height])
            /\ feePool' = Sub(feePool, base)
            /\ tips' = Zero
       ELSE UNCHANGED <<cm, feePool, tips>>
    /\ UNCHANGED <<txset, height, feeMult>>

NextUnsealed ==
    /\ phase = "sealed" /\ height < MaxHeight
    /\ phase' = "unsealed" /\ height' = height + 1 /\ txset' = {} /\ tips' = Zero
    /\ last' = [act |-> "next", b |-> <<>>, ok |-> TRUE, pre |-> St]
    /\ UNCHANGED <<cm, feePool, feeMult>>

Init == /\ cm = [k \in {<<"gen", 0>>} |-> [cov |-> "T", val |-> N(3), denom |-> "MEL", data |-> <<>>, h |-> 0]]
        /\ feePool = N(5) /\ tips = Zero /\ feeMult = N(FeeMultInit) /\ txset = {} /\ height = 0 /\ phase = "unsealed"
        /\ last = [act |-> "init", b |-> <<>>, ok |-> TRUE, pre |-> [net |-> MCNet]]
Next == \/ \E b \in Batches : ApplyBatch(b)
        \/ \E a \in BOOLEAN : DoSeal(a)
        \/ NextUnsealed

\* ---- properties (written from the property statements) ------------------------------------------------
InputsOf(b) == UNION { {U[b[i]].ins[j].id : j \in DOMAIN U[b[i]].ins} : i \in DOMAIN b }
OutputsOf(b, h) == UNION { { <<b[i], j - 1>> : j \in {k \in DOMAIN U[b[i]].outs : U[b[i]].outs[k].cov # DESTROY_COV} } : i \in DOMAIN b }
\* C02
C02_ExactTransition == [][ last'.act = "batch" =>
      IF last'.ok
      THEN LET b == last'.b IN
           /\ DOMAIN cm' = ((DOMAIN cm \cup OutputsOf(b, height) \cup {<<"fdp:" \o b[i], 0>> : i \in {j \in DOMAIN b : U[b[j]].kind = KIND_FAUCET}}) \ InputsOf(b))
           /\ \A i \in DOMAIN b : \A j \in DOMAIN U[b[i]].outs :
                 (<<b[i], j - 1>> \in DOMAIN cm') =>
                    LET c == cm'[<<b[i], j - 1>>]  o == U[b[i]].outs[j] IN
                    c.val = o.val /\ c.cov = o.cov /\ c.h = height /\ c.denom = (IF o.denom = "NEW" THEN "C:" \o b[i] ELSE o.denom)
           /\ InputsOf(b) \subseteq (DOMAIN cm \cup OutputsOf(b, height))
           /\ \A k \in DOMAIN cm \ InputsOf(b) : cm'[k] = cm[k]
      ELSE UNCHANGED vars ]_allvars
C02_NoDoubleSpendAccepted == [][ (last'.act = "batch" /\ last'.ok) =>
      LET b == last'.b
          flat == UNION { { <<i, j>> : j \in DOMAIN U[b[i]].ins } : i \in DOMAIN b }
      IN \A p, q \in flat : p # q => U[b[p[1]]].ins[p[2]].id # U[b[q[1]]].ins[q[2]].id ]_allvars
\* C03: every batch agrees with every permutation of itself, and with one-at-a-time application in presentation order
\* whenever that order respects dependencies (each transaction after those whose outputs it spends)
Perms(b) == { p \in [DOMAIN b -> DOMAIN b] : \A i, j \in DOMAIN b : i # j => p[i] # p[j] }
Permuted(b, p) == [i \in DOMAIN b |-> b[p[i]]]
DepOrder(b) == \A i \in DOMAIN b : \A j \in DOMAIN U[b[i]].ins :
                  LET src == U[b[i]].ins[j].id[1] IN (src \in RangeS(b)) => \E k \in 1..(i - 1) : b[k] = src
RECURSIVE FoldCoins(_, _, _)
\* one at a time: returns [ok, cm]
FoldCoins(b, i, m) ==
    IF i > Len(b) THEN [ok |-> TRUE, cm |-> m]
    ELSE LET one == <<U[b[i]]>>
             st1 == [St EXCEPT !.coins = CoinSeq(m)]
         IN IF AcceptOf(Clauses(one, st1, Ctx0)) THEN FoldCoins(b, i + 1, NextCoins(one, m, height)) ELSE [ok |-> FALSE, cm |-> m]
C03_OrderIndependent == phase = "unsealed" =>
    \A b \in Batches :
        /\ \A p \in Perms(b) : LET c == Permuted(b, p) IN Accept(c) = Accept(b) /\ (Accept(b) => Coins2(c) = Coins2(b))
        /\ (Accept(b) /\ DepOrder(b)) => LET f == FoldCoins(b, 1, cm) IN f.ok /\ f.cm = Coins2(b)
\* C01 (batches and proposer rewards; pools are MC_Melswap's business)
C01_Conservation == [][ \A d \in {"MEL"} \cup {"C:" \o t : t \in TxIds} :
      LET pre == last'.pre
          issued == IF last'.act = "batch" /\ last'.ok THEN IssuedByBatch(TxSeq(last'.b), pre, d) ELSE Zero
      IN Leq(Add(SupplyCoins(cm', d), IF d = "MEL" THEN Add(feePool', tips') ELSE Zero),
             Add(Add(SupplyCoins(cm, d), IF d = "MEL" THEN Add(feePool, tips) ELSE Zero), issued)) ]_allvars
\* C05
C05_FeesExact == [][ /\ (last'.act = "batch" /\ last'.ok) =>
                        /\ Add(feePool', tips') = Add(Add(feePool, tips), SumBig(TxSeq(last'.b), LAMBDA tx : tx.fee))
                        /\ \A i \in DOMAIN last'.b : Geq(U[last'.b[i]].fee, MinFee(U[last'.b[i]], feeMult))
                        /\ feePool' = Add(feePool, SumBig(TxSeq(last'.b), LAMBDA tx : MinFee(tx, feeMult)))
                     /\ (last'.act = "seal" /\ last'.ok) =>
                        /\ cm'[RewardId(height)].val = Add(Shr(feePool, FEE_SHIFT), tips)
                        /\ Add(feePool', tips') = Sub(Add(feePool, tips), cm'[RewardId(height)].val)
                        /\ tips' = Zero
                     /\ (last'.act = "seal" /\ ~last'.ok) => UNCHANGED <<cm, feePool, tips>> ]_allvars
\* C19: a faucet whose marker exists is never accepted again (the marker is kept forever)
C19_FaucetOnce == [][ (last'.act = "batch" /\ last'.ok) =>
      \A i \in DOMAIN last'.b : U[last'.b[i]].kind = KIND_FAUCET =>
           /\ <<"fdp:" \o last'.b[i], 0>> \notin DOMAIN cm
           /\ <<"fdp:" \o last'.b[i], 0>> \in DOMAIN cm'
           /\ \A j \in DOMAIN last'.b : j # i => last'.b[j] # last'.b[i] ]_allvars
C19_MarkersStay == [][ \A k \in DOMAIN cm : k[1] \in {"fdp:" \o t : t \in TxIds} => k \in DOMAIN cm' ]_allvars
\* C04: a consumed coin's covenant approved that very spend (index-bound coin only at index 0; never-true coins never spent)
C04_CovenantApproved == [][ (last'.act = "batch" /\ last'.ok) =>
      \A i \in DOMAIN last'.b : \A j \in DOMAIN U[last'.b[i]].ins :
          LET coin == Lookup(TxSeq(last'.b), cm, height, U[last'.b[i]].ins[j].id) IN
          /\ coin.cov # "F"
          /\ (coin.cov = "I0" => j = 1)
          /\ \E c \in RangeS(U[last'.b[i]].covs) : c.cov = coin.cov ]_allvars
\* vacuity guards: these must be violated (reachability of interesting situations)
Reach_ChainAccepted == ~(last.act = "batch" /\ last.ok /\ Len(last.b) >= 2 /\ \E i \in DOMAIN last.b : last.b[i] = "B")
=============================================================================

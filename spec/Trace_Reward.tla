----------------------------- MODULE Trace_Reward -----------------------------
(* The reward formula of ERG minting (C18) on a grid of speeds, difficulties and heights, against the specification's     *)
(* big-number arithmetic:  real = floor(work * speed * 10^6 / (prev^2 * 2880)) clamped to 2^128 - 1, work = 2^difficulty   *)
(* (x 100, saturating, under TIP-910);  erg = floor((10^6 + height) * real / 10^6).                                        *)
EXTENDS Melmint, Json, IOUtils
Rec == ndJsonDeserialize(IOEnv.TRACE)
VARIABLES l
Work(r) == IF r.tip910 THEN SatMul(Pow2(r.difficulty), N(100)) ELSE Pow2(r.difficulty)
Real(r) == Clamp128(Div(Mul(Mul(Work(r), r.speed), MICRO), Mul(Mul(r.prev, r.prev), N(2880))))
Erg(r, real) == Div(Mul(MicroErgsPerDosc(r.height), real), MICRO)
Verdicts(r) ==
       (IF r.realPanic THEN {<<"C09", "calculate_reward panicked">>} ELSE {})
  \cup (IF ~r.realPanic /\ r.real # Real(r) THEN {<<"C18", "calculate_reward differs from floor(work * speed * 10^6 / (prev^2 * 2880))">>} ELSE {})
  \cup (IF ~r.realPanic /\ ~r.ergPanic /\ r.erg # Erg(r, r.real) THEN {<<"C18", "dosc_to_erg differs from floor(inflator(height) * real)">>} ELSE {})
  \cup (IF r.ergPanic /\ Leq(Erg(r, r.real), U128MAX) THEN {<<"C09", "dosc_to_erg panicked on a representable result">>} ELSE {})
Init == l = 1
Next == /\ l <= Len(Rec)
        /\ l' = l + 1
        /\ \A v \in Verdicts(Rec[l]) : PrintT(ToJson([k |-> "VERDICT", p |-> v[1], l |-> l, c |-> v[2], kf |-> "", fam |-> Rec[l].fam]))
Post == TLCGet("stats").diameter - 1 = Len(Rec)
=============================================================================

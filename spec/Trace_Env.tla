------------------------------ MODULE Trace_Env ------------------------------
(* Heap layout of Covenant::execute(tx, env) and the conversions of transactions / coins / headers to MelVM values (C10):  *)
(* every slot 0..11, read by the one-instruction program LoadImm(k), against Ledger!HeapFromEnv.                            *)
EXTENDS Ledger, Json, IOUtils
Rec == ndJsonDeserialize(IOEnv.TRACE)
VARIABLES l
EnvOf(r) == [ptxb |-> r.env.ptxb, pidx |-> r.env.pidx, covb |-> r.env.covb, val |-> r.env.val, denomb |-> r.env.denomb, data |-> r.env.data,
             h |-> r.env.h, sidx |-> r.env.sidx, hdr |-> r.env.hdr]
Expected(r, k) == LET full == HeapFromEnv(r.tx, EnvOf(r))
                      heap == IF r.withenv THEN full ELSE [a \in {0, 1} |-> full[a]]
                  IN IF k \in DOMAIN heap THEN heap[k] ELSE FV
Verdicts(r) == { <<"C10", "heap slot " \o ToString(k) \o " of the covenant environment differs from the specified layout / value conversion">> :
                    k \in {j \in 0..11 : r.slots[j + 1] # Expected(r, j)} }
               \cup (IF \E j \in 1..12 : r.slots[j].t = "panic" THEN {<<"C09", "building the covenant environment panicked">>} ELSE {})
Init == l = 1
Next == /\ l <= Len(Rec)
        /\ l' = l + 1
        /\ \A v \in Verdicts(Rec[l]) : PrintT(ToJson([k |-> "VERDICT", p |-> v[1], l |-> l, c |-> v[2], kf |-> "", fam |-> Rec[l].fam]))
Post == TLCGet("stats").diameter - 1 = Len(Rec)
=============================================================================

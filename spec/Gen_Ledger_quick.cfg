CONSTANTS
  W = 32
  MaxBatch = 2
  MaxHeight = 0
  SeqRule = FALSE
  FeeMultInit = 0
  MCNet <- GenNet
VIEW GView
INIT GInit
NEXT GNext
CHECK_DEADLOCK FALSE

---------------------------- MODULE MC_Consensus ----------------------------
(***************************************************************************)
(* Exhaustive check of the confirmation rule over every stake table of     *)
(* <= MaxStakes stakes (3 keys, weights 0..3, windows active / not yet /   *)
(* expired) and every signer set with every validity pattern.              *)
(* Inverted = TRUE swaps in the implementation's former condition          *)
(* (mutant: TLC must refute C14 with it).                                  *)
(***************************************************************************)
EXTENDS Consensus, FiniteSets
CONSTANTS MaxStakes, Inverted
Keys == {"k1", "k2", "k3"}
Windows == {<<0, 2>>, <<1, 3>>, <<0, 0>>}
StakeU == { [pk |-> k, start |-> FromInt(w[1]), end |-> FromInt(w[2]), syms |-> FromInt(x)] : k \in Keys, w \in Windows, x \in 0..3 }
Tables == UNION { [1..n -> StakeU] : n \in 1..MaxStakes }
SignerSets == { s \in [Keys -> {"absent", "valid", "invalid"}] : TRUE }
SignersOf(f) == LET ks == SetToSeq({k \in Keys : f[k] # "absent"}) IN [i \in DOMAIN ks |-> [pk |-> ks[i], valid |-> f[ks[i]] = "valid"]]
VARIABLES table, sig, done
Init == table \in Tables /\ sig \in SignerSets /\ done = FALSE
Next == done = FALSE /\ done' = TRUE /\ UNCHANGED <<table, sig>>
\* transcription of the former condition: total > present / 2 * 3
OldRule(stakes, e, signers) == AllValid(signers) /\ Gt(Total(stakes, e), MulSmall(DivSmall(Present(stakes, e, signers), 2), 3))
Rule(stakes, e, signers) == IF Inverted THEN OldRule(stakes, e, signers) ELSE Confirms(stakes, e, signers)
S == SignersOf(sig)
C14_OnlyValidMajority == Rule(table, 0, S) => ~MustNotConfirm(table, 0, S)
C14_MajorityConfirms == MustConfirm(table, 0, S) => Rule(table, 0, S)
C14_EmptyNeverConfirms == (Total(table, 0) # Zero /\ S = <<>>) => ~Rule(table, 0, S)
C14_UnanimousConfirms == (Total(table, 0) # Zero /\ \A k \in Keys : sig[k] = "valid") => Rule(table, 0, S)
\* adding a valid signature never turns a confirming proof into a non-confirming one
C14_Monotone == \A k \in Keys : (sig[k] = "absent" /\ Rule(table, 0, S)) => Rule(table, 0, SignersOf([sig EXCEPT ![k] = "valid"]))
=============================================================================

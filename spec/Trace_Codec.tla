----------------------------- MODULE Trace_Codec -----------------------------
(***************************************************************************)
(* Trace validator for the bytecode codec (harness `codec`).               *)
(* dec records: one byte string pushed through from_bytes/to_ops/to_bytes/ *)
(* weight; enc records: one instruction list pushed through to_bytes and   *)
(* back.  C12 monitors are the clauses of the property statement; the      *)
(* comparison with the specification's opcode table is a C10 clause.       *)
(***************************************************************************)
EXTENDS MelVM, Codec, Json, IOUtils, SequencesExt

Rec == ndJsonDeserialize(IOEnv.TRACE)
VARIABLES l

Representable(ops) == \A i \in DOMAIN ops : ops[i].op = "PushB" => Len(ops[i].b) <= 255

DecVerdicts(r) ==
    LET d == Decode(r.bytes) IN
        (IF r.panic THEN {<<"C12", "decoding panicked">>, <<"C09", "decoding panicked">>} ELSE {})
   \cup (IF ~r.panic /\ r.ok /\ r.re # r.bytes THEN {<<"C12", "decoded program does not re-encode to the same bytes">>} ELSE {})
   \cup (IF ~r.panic /\ r.ok /\ d.ok /\ Encode(d.ops) # r.bytes THEN {<<"C12", "specification codec is not a bijection here (design)">>} ELSE {})
   \cup (IF ~r.panic /\ r.ok # d.ok THEN {<<"C12", IF r.ok THEN "accepts a byte string the specification rejects (non-canonical / trailing / truncated)"
                                                             ELSE "rejects a byte string the specification decodes">>} ELSE {})
   \cup (IF ~r.panic /\ r.ok /\ d.ok /\ r.ops # d.ops THEN {<<"C10", "bytecode decodes to a different program than the specified opcode table">>} ELSE {})
   \cup (IF ~r.panic /\ r.ok /\ r.wbytes # r.weight THEN {<<"C12", "weight from bytes differs from weight from instructions">>} ELSE {})
   \cup (IF ~r.panic /\ r.ok /\ d.ok /\ r.ops = d.ops /\ r.weight # Weight(d.ops) THEN {<<"C05", "covenant weight differs from the specification">>} ELSE {})
   \cup (IF ~r.panic /\ ~r.ok /\ r.wbytes # Zero THEN {<<"C05", "undecodable covenant has non-zero weight">>} ELSE {})

EncVerdicts(r) ==
    IF ~Representable(r.ops) THEN {}
    ELSE (IF r.panic THEN {<<"C12", "encoding a representable program panicked">>} ELSE {})
    \cup (IF ~r.panic /\ (~r.ok2 \/ r.ops2 # r.ops) THEN {<<"C12", "encode then decode does not return the same program">>} ELSE {})
    \cup (IF ~r.panic /\ r.bytes # Encode(r.ops) THEN {<<"C10", "program encodes to different bytes than the specified opcode table">>} ELSE {})
    \cup (IF LET d == Decode(Encode(r.ops)) IN ~d.ok \/ d.ops # r.ops THEN {<<"C12", "specification codec is not a bijection here (design)">>} ELSE {})

Verdicts(r) == IF r.ev = "dec" THEN DecVerdicts(r) ELSE EncVerdicts(r)

Init == l = 1
Next == /\ l <= Len(Rec)
        /\ l' = l + 1
        /\ \A v \in Verdicts(Rec[l]) : PrintT(ToJson([k |-> "VERDICT", p |-> v[1], l |-> l, c |-> v[2], fam |-> Rec[l].fam]))
Post == TLCGet("stats").diameter - 1 = Len(Rec)
=============================================================================

---- MODULE TestBigNat ----
EXTENDS BigNat, TLC, Json, IOUtils
Rec == ndJsonDeserialize(IOEnv.TRACE)
VARIABLE l
Init == l = 1
Check(r) == 
    /\ Add(r.a, r.b) = r.add
    /\ Mul(r.a, r.b) = r.mul
    /\ (IF Geq(r.a, r.b) THEN Sub(r.a, r.b) = r.sub ELSE Sub(r.b, r.a) = r.sub)
    /\ (r.b # <<>> => DivMod(r.a, r.b) = <<r.div, r.mod>>)
    /\ Sqrt(r.a) = r.sqrt
    /\ DivModSmall(r.a, 1000) = <<r.d1000, r.m1000>>
    /\ Shr(r.a, 16) = r.shr16 /\ Shr(r.a, 7) = r.shr7 /\ Shl(r.a, 13) = r.shl13
    /\ AndW(r.a, r.b, 32) = r.and /\ XorW(r.a, r.b, 32) = r.xor /\ NotW(Wrap(r.a,32), 32) = r.not
    /\ SubW(Wrap(r.a,32), Wrap(r.b,32), 32) = r.subw
    /\ BitLen(r.a) = r.bits
Next == l <= Len(Rec) /\ l' = l + 1 /\ Check(Rec[l])    \* a mismatch disables Next: the trace is not consumed and Post fails
Post == TLCGet("stats").diameter - 1 = Len(Rec)
====

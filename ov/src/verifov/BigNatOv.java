package verifov;

import java.math.BigInteger;
import tlc2.overrides.TLAPlusOperator;
import tlc2.value.impl.IntValue;
import tlc2.value.impl.TupleValue;
import tlc2.value.impl.Value;

public class BigNatOv {
    static BigInteger dec(final Value v) {
        final TupleValue t = (TupleValue) v.toTuple();
        final Value[] e = t.elems;
        final byte[] be = new byte[e.length + 1];
        for (int i = 0; i < e.length; i++) be[e.length - i] = (byte) ((IntValue) e[i]).val;
        return new BigInteger(be);
    }
    static Value enc(final BigInteger x) {
        if (x.signum() == 0) return new TupleValue(new Value[0]);
        final byte[] be = x.toByteArray();
        int start = (be[0] == 0) ? 1 : 0;
        final int n = be.length - start;
        final Value[] e = new Value[n];
        for (int i = 0; i < n; i++) e[i] = IntValue.gen(be[be.length - 1 - i] & 0xff);
        return new TupleValue(e);
    }
    @TLAPlusOperator(identifier = "Mul", module = "BigNat", warn = false)
    public static Value mul(final Value a, final Value b) { return enc(dec(a).multiply(dec(b))); }
    @TLAPlusOperator(identifier = "DivMod", module = "BigNat", warn = false)
    public static Value divmod(final Value a, final Value b) {
        final BigInteger[] qr = dec(a).divideAndRemainder(dec(b));
        return new TupleValue(new Value[]{enc(qr[0]), enc(qr[1])});
    }
    @TLAPlusOperator(identifier = "Sqrt", module = "BigNat", warn = false)
    public static Value sqrt(final Value a) { return enc(dec(a).sqrt()); }
}

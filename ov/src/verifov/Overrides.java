package verifov;
import tlc2.overrides.ITLCOverrides;
public class Overrides implements ITLCOverrides {
    @SuppressWarnings("rawtypes")
    @Override public Class[] get() { return new Class[]{BigNatOv.class}; }
}

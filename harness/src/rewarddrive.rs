//! The public reward functions of Melmint on a grid (C18): calculate_reward(speed, prev_speed, difficulty, tip910) and dosc_to_erg(height, real).
use crate::js;
use rand::{rngs::StdRng, Rng, SeedableRng};
use serde_json::json;

pub fn grid(out: &mut crate::Out, seed: u64, n: u64) {
    let mut r = StdRng::seed_from_u64(seed);
    let speeds: Vec<u128> = vec![0, 1, 2, 999_999, 1_000_000, 1_000_001, 1_638_400, 1 << 40, 1 << 64, (1 << 64) + 1, 1 << 100, u128::MAX];
    let prevs: Vec<u128> = vec![1, 2, 1_000_000, 1_638_400, 1 << 32, 1 << 63, 1 << 64, 1 << 100, u128::MAX];
    let diffs: Vec<u32> = vec![0, 1, 8, 12, 14, 18, 32, 63, 64, 65, 100, 120, 121, 127];
    let heights: Vec<u64> = vec![0, 1, 2, 1000, 999_999, 1_000_000, 2_999_999, 3_000_000];
    let mut put = |out: &mut crate::Out, s: u128, p: u128, d: u32, t: bool, h: u64| {
        let real = std::panic::catch_unwind(|| melstf::calculate_reward(s, p, d, t));
        let (real_j, realv, rp) = match real { Ok(x) => (js::limbs_u128(x), x, false), Err(_) => (json!([]), 0, true) };
        let erg = std::panic::catch_unwind(|| melstf::dosc_to_erg(melstructs::BlockHeight(h), realv));
        let (erg_j, ep) = match erg { Ok(x) => (js::limbs_u128(x), false), Err(_) => (json!([]), true) };
        out.put(json!({"ev": "reward", "fam": "reward", "speed": js::limbs_u128(s), "prev": js::limbs_u128(p), "difficulty": d, "tip910": t, "height": h,
                       "real": real_j, "realPanic": rp, "erg": erg_j, "ergPanic": ep}));
    };
    for s in speeds.iter() {
        for p in prevs.iter() {
            for d in diffs.iter() {
                for t in [false, true] {
                    put(out, *s, *p, *d, t, heights[(*d as usize) % heights.len()]);
                }
            }
        }
    }
    for _ in 0..n {
        let s = r.gen::<u128>() >> r.gen_range(0..128);
        let p = (r.gen::<u128>() >> r.gen_range(0..127)).max(1);
        put(out, s, p, r.gen_range(0..128), r.gen(), r.gen_range(0..3_000_000));
    }
}

//! A world of named states driven through the public API of melstf; every call is logged as one NDJSON event
//! carrying its arguments, its result and the full projection of the state before and after.
use crate::lj::{self, Names};
use crate::{js, Out};
use melstf::{GenesisConfig, SealedState, SmtMapping, StateError, UnsealedState};
use melstructs::*;
use novasmt::{Database, InMemoryCas};
use serde_json::{json, Value as J};
use std::collections::HashMap;
use std::panic::{catch_unwind, AssertUnwindSafe};
use tip911_stakeset::StakeSet;

pub type U = UnsealedState<InMemoryCas>;
pub type S = SealedState<InMemoryCas>;

#[derive(Clone)]
pub enum St {
    U(U),
    S(S),
}

pub struct World<'a> {
    pub db: Database<InMemoryCas>,
    pub states: Vec<St>,
    pub names: Names,
    pub out: &'a mut Out,
    pub events: u64,
    pub tag: String,
    pub cur_base: u64,
    /// lowest height the history tree of each state is expected to hold (0 unless the lineage was fabricated at a height)
    pub bases: Vec<u64>,
    /// per state: the faucet transactions accepted on the way to it (bookkeeping of the workload's own history, a plain fact:
    /// "this transaction was accepted at an ancestor of this state")
    pub anc_faucets: Vec<std::sync::Arc<std::collections::BTreeSet<TxHash>>>,
    /// parent of the next pushed state and the faucets accepted by the step that creates it
    pub parent_hint: Option<usize>,
    pub add_hint: Vec<TxHash>,
    /// the state against which tx_json reports `seenFaucet`
    pub ctx_sid: Option<usize>,
}

pub fn res_s<T>(r: &std::thread::Result<Result<T, StateError>>) -> String {
    match r {
        Ok(Ok(_)) => "ok".into(),
        Ok(Err(_)) => "err".into(),
        Err(_) => "panic".into(),
    }
}

pub fn action_j(a: &Option<ProposerAction>) -> J {
    match a {
        Some(a) => json!({"some": true, "delta": a.fee_multiplier_delta, "dest": lj::hx(&a.reward_dest.0)}),
        None => json!({"some": false, "delta": 0, "dest": ""}),
    }
}

impl<'a> World<'a> {
    pub fn new(out: &'a mut Out, tag: &str) -> Self {
        World { db: Database::new(InMemoryCas::default()), states: vec![], names: Names::default(), out, events: 0, tag: tag.to_string(), cur_base: 0, bases: vec![], anc_faucets: vec![], parent_hint: None, add_hint: vec![], ctx_sid: None }
    }

    fn push(&mut self, s: St) -> usize {
        let mut set = match self.parent_hint.take() {
            Some(p) => self.anc_faucets[p].clone(),
            None => Default::default(),
        };
        if !self.add_hint.is_empty() {
            let mut m = (*set).clone();
            m.extend(self.add_hint.drain(..));
            set = std::sync::Arc::new(m);
        }
        self.anc_faucets.push(set);
        self.states.push(s);
        let b = self.cur_base;
        self.bases.push(b);
        self.states.len() - 1
    }

    pub fn unsealed(&self, sid: usize) -> &U {
        match &self.states[sid] {
            St::U(u) => u,
            _ => panic!("state {} is not unsealed", sid),
        }
    }
    pub fn sealed(&self, sid: usize) -> &S {
        match &self.states[sid] {
            St::S(s) => s,
            _ => panic!("state {} is not sealed", sid),
        }
    }

    pub fn obs_u(&self, u: &U) -> J {
        let mut o = lj::view_j(&u.verif_view(), &self.names);
        o["sealed"] = json!(false);
        o["histBase"] = json!(self.cur_base);
        o
    }
    pub fn obs_s(&self, s: &S) -> J {
        let mut o = lj::view_j(&s.verif_view(), &self.names);
        o["sealed"] = json!(true);
        o["histBase"] = json!(self.cur_base);
        let mut full: Vec<String> = s.transactions().map(|t| hex::encode(tmelcrypt::hash_single(&stdcode::serialize(t).unwrap()).0)).collect();
        full.sort();
        o["txfull"] = json!(full);
        o["header"] = lj::header_j(&s.header());
        o["action"] = action_j(&s.proposer_action().copied());
        o
    }
    pub fn obs(&self, sid: usize) -> J {
        match &self.states[sid] {
            St::U(u) => self.obs_u(u),
            St::S(s) => self.obs_s(s),
        }
    }

    pub fn emit(&mut self, mut ev: J) {
        ev["i"] = json!(self.events);
        ev["tag"] = json!(self.tag);
        self.events += 1;
        self.out.put(ev);
    }

    pub fn genesis(&mut self, cfg: GenesisConfig) -> usize {
        self.names.coin(CoinID::zero_zero());
        self.names.cov(cfg.init_coindata.covhash);
        self.names.cov(Address::coin_destroy());
        self.names.height(0);
        self.names.pool(PoolKey::new(Denom::Mel, Denom::Sym));
        self.names.pool(PoolKey::new(Denom::Mel, Denom::Erg));
        self.names.pool(PoolKey::new(Denom::Erg, Denom::Sym));
        let cj = json!({"net": u8::from(cfg.network), "coin": lj::coindata_j(&cfg.init_coindata), "feePool": js::limbs_u128(cfg.init_fee_pool.0),
                        "feeMult": js::limbs_u128(cfg.init_fee_multiplier),
                        "stakes": cfg.stakes.iter().map(|(k, sd)| json!({"tx": lj::hx(&k.0), "pk": hex::encode(sd.pubkey.0), "start": js::limbs_u64(sd.e_start),
                                   "end": js::limbs_u64(sd.e_post_end), "syms": js::limbs_u128(sd.syms_staked.0)})).collect::<Vec<_>>()});
        let u = cfg.realize(&self.db);
        let post = self.obs_u(&u);
        let sid = self.push(St::U(u));
        self.emit(json!({"ev": "init", "cfg": cj, "post": post, "postid": sid}));
        sid
    }

    /// header of the previous block as apply_tx_batch sees it (fact for covenant environments)
    pub fn last_header(&self, u: &U) -> Header {
        let v = u.verif_view();
        let hist: SmtMapping<InMemoryCas, BlockHeight, Header> = SmtMapping::new(v.history.clone());
        hist.get(&BlockHeight(v.height.0.saturating_sub(1))).unwrap_or_else(|| u.clone().seal(None).header())
    }

    pub fn tx_json(&mut self, u: &U, batch: &[Transaction], tx: &Transaction) -> J {
        let v = u.verif_view();
        let lh = self.last_header(u);
        // coins created inside the batch (for fact collection only)
        let mut created: HashMap<CoinID, CoinDataHeight> = HashMap::new();
        for t in batch {
            let id = t.hash_nosigs();
            for (i, o) in t.outputs.iter().enumerate().take(256) {
                let mut cd = o.clone();
                if cd.denom == Denom::NewCustom {
                    cd.denom = Denom::Custom(id);
                }
                created.insert(CoinID::new(id, i as u8), CoinDataHeight { coin_data: cd, height: v.height });
            }
        }
        let coins = v.coins.clone();
        let resolve = move |c: &CoinID| -> Option<CoinDataHeight> {
            if let Some(x) = created.get(c) {
                return Some(x.clone());
            }
            let b = coins.get(tmelcrypt::hash_single(&stdcode::serialize(c).unwrap()).0);
            if b.is_empty() {
                None
            } else {
                stdcode::deserialize(&b).ok()
            }
        };
        let facts = lj::covenant_facts(tx, &resolve, &lh);
        let mint = if tx.kind == TxKind::DoscMint {
            let hist: SmtMapping<InMemoryCas, BlockHeight, Header> = SmtMapping::new(v.history.clone());
            let seed = tx.inputs.first().and_then(|c| resolve(c)).and_then(|cdh| hist.get(&cdh.height));
            lj::mint_j(tx, seed.as_ref())
        } else {
            json!({"decoded": false, "difficulty": [], "parsed": false, "proof": "none"})
        };
        let mut j = lj::tx_j(tx, &facts, mint);
        // history fact: this very faucet was accepted at an ancestor of the state the batch is applied to
        if let Some(sid) = self.ctx_sid {
            j["seenFaucet"] = json!(tx.kind == TxKind::Faucet && self.anc_faucets[sid].contains(&tx.hash_nosigs()));
        }
        j
    }

    /// byte strings behind the hex / denomination names of the coins the batch spends, and the past headers a mint refers to
    pub fn batch_facts(&self, u: &U, txs: &[Transaction]) -> (J, J) {
        let v = u.verif_view();
        let mut created: HashMap<CoinID, CoinDataHeight> = HashMap::new();
        for t in txs {
            let id = t.hash_nosigs();
            for (i, o) in t.outputs.iter().enumerate().take(256) {
                let mut cd = o.clone();
                if cd.denom == Denom::NewCustom {
                    cd.denom = Denom::Custom(id);
                }
                created.insert(CoinID::new(id, i as u8), CoinDataHeight { coin_data: cd, height: v.height });
            }
        }
        let resolve = |c: &CoinID| -> Option<CoinDataHeight> {
            if let Some(x) = created.get(c) {
                return Some(x.clone());
            }
            let b = v.coins.get(tmelcrypt::hash_single(&stdcode::serialize(c).unwrap()).0);
            if b.is_empty() { None } else { stdcode::deserialize(&b).ok() }
        };
        let mut names: std::collections::BTreeMap<String, Vec<u8>> = Default::default();
        let mut heights: std::collections::BTreeSet<u64> = Default::default();
        for t in txs {
            for (i, c) in t.inputs.iter().enumerate() {
                if let Some(cdh) = resolve(c) {
                    names.insert(lj::hx(&cdh.coin_data.covhash.0), cdh.coin_data.covhash.0 .0.to_vec());
                    names.insert(lj::denom_s(&cdh.coin_data.denom), cdh.coin_data.denom.to_bytes().to_vec());
                    if t.kind == TxKind::DoscMint && i == 0 {
                        heights.insert(cdh.height.0);
                    }
                }
            }
            if t.kind == TxKind::DoscMint && v.height.0 > 0 {
                heights.insert(v.height.0 - 1);
            }
        }
        let hist: SmtMapping<InMemoryCas, BlockHeight, Header> = SmtMapping::new(v.history.clone());
        let hdrs: Vec<J> = heights.iter().filter_map(|h| hist.get(&BlockHeight(*h)).map(|hd| json!([h, {"dosc": js::limbs_u128(hd.dosc_speed), "hash": lj::hx(&hd.hash())}]))).collect();
        (J::Array(names.into_iter().map(|(k, b)| json!([k, b])).collect()), J::Array(hdrs))
    }

    /// claims that the contents of a sealed state determine its roots and vice versa (C07)
    pub fn root_claims(obs: &J) -> Vec<J> {
        let dg = |v: &J| hex::encode(&tmelcrypt::hash_single(serde_json::to_vec(v).unwrap()).0[..12]);
        let hd = &obs["header"];
        let mut out = vec![];
        let parts: Vec<(&str, J, &str)> = vec![
            ("coins", json!([obs["coins"], obs["counts"], obs["unknown"]]), "coins"),
            ("pools", json!([obs["pools"], obs["unknownPools"]]), "pools"),
            ("stakes", obs["stakes"].clone(), "stakes"),
            ("hist", json!([obs["hist"], obs["unknownHist"]]), "hist"),
            ("txs", obs["txfull"].clone(), "txs"),
        ];
        for (name, content, field) in parts {
            let d = dg(&content);
            let root = hd[field].as_str().unwrap_or("").to_string();
            let net = obs["net"].to_string();
            let extra = if name == "txs" { format!("{}:{}", net, if obs["net"] == json!(8) { "dense" } else { "smt" }) } else { String::new() };
            out.push(json!([format!("root-of:{}:{}:{}", name, extra, d), root, "C07", format!("equal {} contents reached by different histories give different roots", name)]));
            out.push(json!([format!("contents-of:{}:{}:{}", name, extra, root), d, "C07", format!("different {} contents give the same root", name)]));
            if name == "stakes" {
                // C13 states the same of the stake commitment: it reflects exactly the registered, unexpired stakes
                out.push(json!([format!("root-of:{}:{}:{}", name, extra, d), root, "C13", "the stake commitment in the header is not a function of the registered stakes (equal stake sets, different commitments)"]));
                out.push(json!([format!("contents-of:{}:{}:{}", name, extra, root), d, "C13", "the stake commitment in the header does not reflect the registered stakes (different stake sets, same commitment)"]));
            }
        }
        out
    }

    /// the header of a sealed state is a function of that state alone: observed when the state is made and whenever it is looked at again
    pub fn header_claim(tag: &str, sid: usize, obs: &J) -> J {
        json!([format!("hdr-of|{}|{}", tag, sid), obs["header"]["hash"], "C07",
               "the header of a sealed state changed after other states were derived from it (roots are not functions of the state's own contents)"])
    }

    /// looks at sealed state `sid` again: its header and the contents <-> roots relation must be what they were
    pub fn reobserve(&mut self, sid: usize) {
        let s = self.sealed(sid).clone();
        let obs = self.obs_s(&s);
        let mut claims = Self::root_claims(&obs);
        claims.push(Self::header_claim(&self.tag, sid, &obs));
        self.emit(json!({"ev": "reobs", "sid": sid, "claims": claims}));
    }

    /// agreement claims requested by the workload: extra.agreeKey (+ extra.prop) or extra.agree = [[key, prop], ...];
    /// the value is the call's result plus a digest of the whole observed post-state
    pub fn agree_claims(extra: &J, res: &str, post: &J) -> Vec<J> {
        let dg = hex::encode(&tmelcrypt::hash_single(serde_json::to_vec(post).unwrap()).0[..12]);
        let val = format!("{}:{}", if extra.get("fold").is_some() { "ok" } else { res }, dg);
        let clause = |p: &str| match p {
            "C08" => "a state rebuilt from its block accepts / rejects differently or reaches a different state or header than the original",
            "C06" => "the same block delivered again gives a different result",
            _ => "the outcome of applying a set of transactions depends on their order / thread count, or differs from applying them one at a time",
        };
        let mut out = vec![];
        if let Some(k) = extra.get("agreeKey").and_then(|k| k.as_str()) {
            let p = extra.get("prop").and_then(|p| p.as_str()).unwrap_or("C03");
            out.push(json!([k, val, p, clause(p)]));
        }
        // verdict-only agreement (states not comparable, e.g. a batch against the block holding the same transactions)
        if let Some(k) = extra.get("agreeRes").and_then(|k| k.as_str()) {
            out.push(json!([k, res, "C03", "the same set of transactions is accepted in one presentation (batch / block / order / run) and rejected in another"]));
        }
        if let Some(a) = extra.get("agree").and_then(|a| a.as_array()) {
            for kp in a {
                let p = kp[1].as_str().unwrap_or("C03");
                out.push(json!([kp[0], val, p, clause(p)]));
            }
        }
        out
    }

    /// apply_tx_batch on a clone of state `sid`; returns (new state id, accepted)
    pub fn batch(&mut self, sid: usize, txs: &[Transaction], threads: usize, extra: J) -> (usize, bool) {
        for t in txs {
            self.names.tx(t);
        }
        let pre_u = self.unsealed(sid).clone();
        let pre = self.obs_u(&pre_u);
        let lh = self.last_header(&pre_u);
        self.ctx_sid = Some(sid);
        let txj: Vec<J> = txs.iter().map(|t| self.tx_json(&pre_u, txs, t)).collect();
        self.ctx_sid = None;
        let (bytes_of, hdrs) = self.batch_facts(&pre_u, txs);
        let mut work = pre_u.clone();
        let r = catch_unwind(AssertUnwindSafe(|| {
            if threads == 0 {
                work.apply_tx_batch(txs)
            } else {
                let pool = rayon::ThreadPoolBuilder::new().num_threads(threads).build().unwrap();
                pool.install(|| work.apply_tx_batch(txs))
            }
        }));
        let res = res_s(&r);
        if std::env::var("HARNESS_DEBUG").is_ok() {
            if let Ok(Err(e)) = &r {
                eprintln!("batch rejected: {:?} ({})", e, extra);
            }
        }
        let after = if res == "panic" { pre_u.clone() } else { work };
        let post = self.obs_u(&after);
        let ok = res == "ok";
        self.parent_hint = Some(sid);
        if ok {
            self.add_hint = txs.iter().filter(|t| t.kind == TxKind::Faucet).map(|t| t.hash_nosigs()).collect();
        }
        let nid = self.push(St::U(after));
        let claims = Self::agree_claims(&extra, &res, &post);
        self.emit(json!({"ev": "batch", "preid": sid, "postid": nid, "pre": pre, "txs": txj, "lastHeader": lj::header_j(&lh), "threads": threads,
                         "bytesOf": bytes_of, "hdrs": hdrs, "claims": claims, "res": res, "post": post, "x": extra}));
        (nid, ok)
    }

    pub fn block_txs_json(&mut self, u: &U) -> Vec<J> {
        let v = u.verif_view();
        let txs = v.transactions.clone();
        txs.iter().map(|t| {
            self.names.tx(t);
            lj::tx_j(t, &crate::vm::Facts::new(), json!({"decoded": false, "difficulty": [], "parsed": false, "proof": "none"}))
        }).collect()
    }

    pub fn seal(&mut self, sid: usize, action: Option<ProposerAction>, extra: J) -> Option<usize> {
        let pre_u = self.unsealed(sid).clone();
        let h = pre_u.verif_view().height.0;
        self.names.height(h);
        self.names.height(h + 1);
        if let Some(a) = &action {
            self.names.cov(a.reward_dest);
        }
        let blocktxs = self.block_txs_json(&pre_u);
        let pre = self.obs_u(&pre_u);
        let work = pre_u.clone();
        let r = catch_unwind(AssertUnwindSafe(|| work.seal(action)));
        let rewardid = lj::coinid_j(&CoinID::proposer_reward(BlockHeight(h)));
        match r {
            Ok(s) => {
                let post = self.obs_s(&s);
                self.parent_hint = Some(sid);
                let nid = self.push(St::S(s));
                let mut claims = Self::root_claims(&post);
                claims.extend(Self::agree_claims(&extra, "ok", &post));
                claims.push(Self::header_claim(&self.tag, nid, &post));
                self.emit(json!({"ev": "seal", "preid": sid, "postid": nid, "pre": pre, "action": action_j(&action), "blocktxs": blocktxs, "rewardid": rewardid,
                                 "claims": claims, "res": "ok", "post": post, "x": extra}));
                Some(nid)
            }
            Err(_) => {
                self.emit(json!({"ev": "seal", "preid": sid, "postid": sid, "pre": pre.clone(), "action": action_j(&action), "blocktxs": blocktxs, "rewardid": rewardid,
                                 "res": "panic", "post": pre, "x": extra}));
                None
            }
        }
    }

    pub fn next(&mut self, sid: usize) -> usize {
        let s = self.sealed(sid).clone();
        let pre = self.obs_s(&s);
        self.names.height(s.header().height.0 + 1);
        let r = catch_unwind(AssertUnwindSafe(|| s.next_unsealed()));
        match r {
            Ok(u) => {
                let post = self.obs_u(&u);
                self.parent_hint = Some(sid);
                let nid = self.push(St::U(u));
                self.emit(json!({"ev": "next", "preid": sid, "postid": nid, "pre": pre, "res": "ok", "post": post}));
                nid
            }
            Err(_) => {
                self.emit(json!({"ev": "next", "preid": sid, "postid": sid, "pre": pre.clone(), "res": "panic", "post": pre}));
                sid
            }
        }
    }

    /// apply_block on sealed state `sid`
    pub fn block(&mut self, sid: usize, blk: &Block, threads: usize, extra: J) -> (usize, bool) {
        let s = self.sealed(sid).clone();
        for t in blk.transactions.iter() {
            self.names.tx(t);
        }
        self.names.height(s.header().height.0 + 1);
        self.names.height(s.header().height.0 + 2);
        if let Some(a) = &blk.proposer_action {
            self.names.cov(a.reward_dest);
        }
        let pre = self.obs_s(&s);
        // facts for the transactions are taken against the state the block's batch is applied to
        let basis = catch_unwind(AssertUnwindSafe(|| s.next_unsealed())).ok();
        let mut txs: Vec<Transaction> = blk.transactions.iter().cloned().collect();
        txs.sort_by_key(|t| t.hash_nosigs());
        let (txj, lh, basis_obs, bytes_of, hdrs) = match &basis {
            Some(b) => {
                let lh = self.last_header(b);
                self.ctx_sid = Some(sid);
                let txj: Vec<J> = txs.iter().map(|t| self.tx_json(b, &txs, t)).collect();
                self.ctx_sid = None;
                let (bo, hd) = self.batch_facts(b, &txs);
                (txj, lj::header_j(&lh), self.obs_u(b), bo, hd)
            }
            None => (vec![], json!({}), json!({}), json!([]), json!([])),
        };
        let r = catch_unwind(AssertUnwindSafe(|| {
            if threads == 0 {
                s.apply_block(blk)
            } else {
                let pool = rayon::ThreadPoolBuilder::new().num_threads(threads).build().unwrap();
                pool.install(|| s.apply_block(blk))
            }
        }));
        let res = res_s(&r);
        let rewardid = lj::coinid_j(&CoinID::proposer_reward(BlockHeight(s.header().height.0 + 1)));
        let (post, nid) = match r {
            Ok(Ok(ns)) => {
                let p = self.obs_s(&ns);
                self.parent_hint = Some(sid);
                self.add_hint = txs.iter().filter(|t| t.kind == TxKind::Faucet).map(|t| t.hash_nosigs()).collect();
                (p, self.push(St::S(ns)))
            }
            _ => (pre.clone(), sid),
        };
        let mut claims = Self::agree_claims(&extra, &res, &post);
        if res == "ok" {
            claims.extend(Self::root_claims(&post));
        }
        // the header that the block's own contents lead to (computed by the workload) commits to those contents:
        // different transaction sets (full hashes, signatures included) / actions on one parent must give different headers
        if let Some(hh) = extra.get("honestHeader").and_then(|h| h.get("hash")).and_then(|h| h.as_str()) {
            let mut full: Vec<String> = blk.transactions.iter().map(|t| hex::encode(tmelcrypt::hash_single(&stdcode::serialize(t).unwrap()).0)).collect();
            full.sort();
            let dg = hex::encode(&tmelcrypt::hash_single(serde_json::to_vec(&json!(full)).unwrap()).0[..12]);
            let dga = hex::encode(&tmelcrypt::hash_single(serde_json::to_vec(&json!([full, action_j(&blk.proposer_action)])).unwrap()).0[..12]);
            // (the header commits to the effects of the proposer action, not to the action: a delta too small to move the
            // multiplier leaves the same header, so only the transactions are compared under one header)
            claims.push(json!([format!("block-txs-of:{}:{}", sid, hh), dg, "C07", "two blocks on one parent that differ in a transaction (signatures included) have the same header"]));
            claims.push(json!([format!("header-of-block:{}:{}", sid, dga), hh, "C07", "the same block contents on the same parent give different headers"]));
        }
        self.emit(json!({"ev": "block", "claims": claims, "preid": sid, "postid": nid, "pre": pre, "basis": basis_obs, "txs": txj, "lastHeader": lh,
                         "header": lj::header_j(&blk.header), "action": action_j(&blk.proposer_action), "rewardid": rewardid,
                         "bytesOf": bytes_of, "hdrs": hdrs, "threads": threads, "res": res, "post": post, "x": extra}));
        (nid, res == "ok")
    }

    /// Fabricates, through the public from_block, a sealed state with the coins / pools / stakes of sealed state `sid`
    /// but at height `h` (its history tree holds one predecessor header at h - 1).  Used to reach epoch boundaries
    /// and TIP activation heights.
    pub fn jump(&mut self, sid: usize, h: u64) -> usize {
        let s = self.sealed(sid).clone();
        let pre = self.obs_s(&s);
        let hd = s.header();
        let prev = Header { height: BlockHeight(h - 1), ..hd };
        self.names.height(h - 1);
        self.names.height(h);
        // keep the entries the history already has (mints look up the header at a coin's creation height)
        let mut hist = s.raw_history_smt();
        hist.insert(tmelcrypt::hash_single(&stdcode::serialize(&BlockHeight(h - 1)).unwrap()).0, &stdcode::serialize(&prev).unwrap());
        let nh = Header { height: BlockHeight(h), previous: prev.hash(), history_hash: tmelcrypt::HashVal(hist.root_hash()), ..hd };
        let blk = Block { header: nh, transactions: Default::default(), proposer_action: None };
        let t = S::from_block(&blk, &s.raw_stakes(), &self.db);
        self.cur_base = h - 1;
        let post = self.obs_s(&t);
        self.parent_hint = Some(sid);
        let nid = self.push(St::S(t));
        self.emit(json!({"ev": "jump", "preid": sid, "postid": nid, "pre": pre, "res": "ok", "post": post, "to": h}));
        nid
    }

    /// voting power as the stake set reports it (C13 / C14 observation)
    pub fn votes(&mut self, sid: usize, epoch: u64, keys: &[tmelcrypt::Ed25519PK]) {
        let s = self.sealed(sid).clone();
        let st = s.raw_stakes();
        let rows: Vec<J> = keys.iter().map(|k| json!({"pk": hex::encode(k.0), "votes": js::limbs_u128(st.votes(epoch, *k))})).collect();
        let obs = self.obs_s(&s);
        // the TIP-911 view of the same stake set: totals of this and the next epoch, stakes ordered by size then transaction hash,
        // and a dense Merkle tree whose k-th leaf commits to the first k+1 stakes
        let t911 = st.post_tip911(epoch);
        let tree = t911.calculate_merkle();
        let mut proofs_ok = true;
        for k in 0..t911.stakes.len() {
            let leaf = novasmt::hash_data(&stdcode::serialize(&(t911.current_total, t911.next_total, t911.stakes[..=k].to_vec())).unwrap());
            proofs_ok &= novasmt::dense::verify_dense(&tree.proof(k), tree.root_hash(), k, leaf);
        }
        let t911j = json!({"cur": js::limbs_u128(t911.current_total.0), "next": js::limbs_u128(t911.next_total.0),
                           "stakes": t911.stakes.iter().map(|(k, sd)| json!({"tx": lj::hx(&k.0), "syms": js::limbs_u128(sd.syms_staked.0)})).collect::<Vec<_>>(),
                           "proofsOk": proofs_ok});
        self.emit(json!({"ev": "votes", "preid": sid, "pre": obs, "epoch": epoch, "rows": rows, "total": js::limbs_u128(st.total_votes(epoch)), "tip911": t911j, "res": "ok"}));
    }

    /// from_block(to_block, raw_stakes, db): the restarted twin of sealed state `sid`
    pub fn restart(&mut self, sid: usize) -> usize {
        let s = self.sealed(sid).clone();
        let pre = self.obs_s(&s);
        let r = catch_unwind(AssertUnwindSafe(|| {
            let blk = s.to_block();
            let stakes: StakeSet = s.raw_stakes();
            S::from_block(&blk, &stakes, &self.db)
        }));
        match r {
            Ok(t) => {
                let post = self.obs_s(&t);
                self.parent_hint = Some(sid);
                let nid = self.push(St::S(t));
                self.emit(json!({"ev": "restart", "preid": sid, "postid": nid, "pre": pre, "res": "ok", "post": post}));
                nid
            }
            Err(_) => {
                self.emit(json!({"ev": "restart", "preid": sid, "postid": sid, "pre": pre.clone(), "res": "panic", "post": pre}));
                sid
            }
        }
    }
}

//! Small adversarial universe of real transactions, every ordered batch of which (up to a length) is applied to the
//! same few states of the real code — the concrete counterpart of MC_Ledger's universe: dependent chains, conflicting
//! spenders of coins that exist / are created in the batch, repeated inputs, identical coins under position-dependent
//! covenants, covenant-less spends next to covenant-carrying ones, under- and over-payers, stakes and spends of staked
//! coins, faucets and duplicates.  Every event is judged by Trace_Ledger.
use crate::drive::Driver;
use crate::wallet::{min_fee, mk_coin, CovKind};
use melstructs::*;
use serde_json::json;
use std::collections::BTreeMap;

fn with_fee(d: &Driver, mut tx: Transaction, mel_out: usize, budget: u128, extra: i128, input_data: &[Option<CoinData>]) -> Transaction {
    // pays exactly the minimum fee + extra out of output `mel_out` (whose value is budget - fee)
    for _ in 0..5 {
        d.wal.authorise(&mut tx, input_data);
        let need = (min_fee(&tx, d.fee_mult()) as i128 + extra).max(0) as u128;
        tx.fee = CoinValue(need);
        tx.outputs[mel_out].value = CoinValue(budget.saturating_sub(need));
    }
    d.wal.authorise(&mut tx, input_data);
    tx
}

pub fn universe(out: &mut crate::Out, tag: &str, seed: u64, fee_mult: u128, maxlen: usize) {
    let mut d = Driver::new(out, tag, seed, NetID::Custom02, fee_mult, Denom::Mel, 1u128 << 50, 1 << 30, BTreeMap::new());
    d.wal.simple = true;
    d.seal_next(Some(false));
    let t = d.wal.address(CovKind::True);
    let i0 = d.wal.address(CovKind::Idx0);
    let n1 = d.wal.address(CovKind::New(1));
    let n2 = d.wal.address(CovKind::New(2));
    let unsp = d.wal.address(CovKind::False);
    let v: u128 = 10_000_000;
    // F1: the faucet everything hangs off
    let f1 = d.faucet(vec![mk_coin(t, 4 * v, Denom::Mel, &[]),      // 0
                           mk_coin(i0, 2 * v, Denom::Mel, &[]),     // 1  index-bound, three identical coins
                           mk_coin(i0, 2 * v, Denom::Mel, &[]),     // 2
                           mk_coin(i0, 2 * v, Denom::Mel, &[]),     // 3
                           mk_coin(n1, 3 * v, Denom::Mel, &[]),     // 4  new-style signature, two identical coins
                           mk_coin(n1, 3 * v, Denom::Mel, &[]),     // 5
                           mk_coin(n2, 5 * v, Denom::Sym, &[]),     // 6  SYM to stake
                           mk_coin(n2, 3 * v, Denom::Mel, &[]),     // 7
                           mk_coin(t, 3 * v, Denom::Mel, &[]),      // 8
                           mk_coin(t, 3 * v, Denom::Mel, &[])], 0, 42); // 9
    let f1id = f1.hash_nosigs();
    let h = d.view().height;
    let coin = |tx: &Transaction, i: usize| -> (CoinID, CoinDataHeight) { (CoinID::new(tx.hash_nosigs(), i as u8), CoinDataHeight { coin_data: tx.outputs[i].clone(), height: h }) };
    let cd = |c: &(CoinID, CoinDataHeight)| Some(c.1.coin_data.clone());
    let mk = |d: &Driver, ins: Vec<(CoinID, CoinDataHeight)>, outs: Vec<CoinData>, mel_out: usize, extra: i128, kind: TxKind, data: Vec<u8>| -> Transaction {
        let budget: u128 = ins.iter().filter(|c| c.1.coin_data.denom == Denom::Mel).map(|c| c.1.coin_data.value.0).sum::<u128>()
            - outs.iter().enumerate().filter(|(i, o)| *i != mel_out && o.denom == Denom::Mel).map(|(_, o)| o.value.0).sum::<u128>();
        let tx = Transaction { kind, inputs: ins.iter().map(|c| c.0).collect(), outputs: outs, fee: CoinValue(0), covenants: vec![], data: data.into(), sigs: vec![] };
        let idata: Vec<Option<CoinData>> = ins.iter().map(cd).collect();
        with_fee(d, tx, mel_out, budget, extra, &idata)
    };
    let _ = f1id;
    let a = mk(&d, vec![coin(&f1, 0)], vec![mk_coin(t, 2 * v, Denom::Mel, &[]), mk_coin(t, 0, Denom::Mel, &[])], 1, 0, TxKind::Normal, vec![]);
    let b = mk(&d, vec![coin(&a, 0)], vec![mk_coin(t, 0, Denom::Mel, &[])], 0, 0, TxKind::Normal, vec![]);
    let c = mk(&d, vec![coin(&a, 0)], vec![mk_coin(Address::coin_destroy(), v, Denom::Mel, &[]), mk_coin(t, 0, Denom::Mel, &[])], 1, 0, TxKind::Normal, vec![1]);
    let dd = mk(&d, vec![coin(&a, 1), coin(&b, 0)], vec![mk_coin(t, 0, Denom::Mel, &[])], 0, 777, TxKind::Normal, vec![]);
    let mut e = mk(&d, vec![coin(&a, 1)], vec![mk_coin(t, 0, Denom::Mel, &[])], 0, 0, TxKind::Normal, vec![2]);
    e.outputs[0].value.0 += 1; // unbalanced
    let g = {
        let c8 = coin(&f1, 8);
        let mut x = mk(&d, vec![c8.clone()], vec![mk_coin(t, 0, Denom::Mel, &[])], 0, 0, TxKind::Normal, vec![3]);
        x.inputs.push(c8.0);
        x.outputs[0].value.0 += c8.1.coin_data.value.0;
        x
    };
    let g2 = {
        let a1 = coin(&a, 1);
        let mut x = mk(&d, vec![a1.clone()], vec![mk_coin(t, 0, Denom::Mel, &[])], 0, 0, TxKind::Normal, vec![4]);
        x.inputs.push(a1.0);
        x.outputs[0].value.0 += a1.1.coin_data.value.0;
        x
    };
    let n = mk(&d, vec![coin(&f1, 9)], vec![mk_coin(t, 0, Denom::Mel, &[]), mk_coin(t, 5, Denom::NewCustom, &[])], 0, 0, TxKind::Normal, vec![]);
    let x = {
        let ghost = (CoinID::new(TxHash(tmelcrypt::hash_single(b"ghost")), 0), CoinDataHeight { coin_data: mk_coin(t, v, Denom::Mel, &[]), height: h });
        mk(&d, vec![ghost], vec![mk_coin(t, 0, Denom::Mel, &[])], 0, 0, TxKind::Normal, vec![])
    };
    let i_ = mk(&d, vec![coin(&f1, 8), coin(&f1, 1)], vec![mk_coin(t, 0, Denom::Mel, &[])], 0, 0, TxKind::Normal, vec![5]);   // index-bound coin at position 1
    let j_ = mk(&d, vec![coin(&f1, 1), coin(&f1, 8)], vec![mk_coin(unsp, 0, Denom::Mel, &[])], 0, 0, TxKind::Normal, vec![6]); // ... at position 0
    let k_ = mk(&d, vec![coin(&f1, 2), coin(&f1, 3)], vec![mk_coin(t, 0, Denom::Mel, &[])], 0, 0, TxKind::Normal, vec![7]);    // two identical index-bound coins
    let l_ = {
        // two identical new-style coins, only the first signature is good
        let mut x = mk(&d, vec![coin(&f1, 4), coin(&f1, 5)], vec![mk_coin(t, 0, Denom::Mel, &[])], 0, 0, TxKind::Normal, vec![8]);
        if x.sigs.len() > 1 {
            x.sigs[1] = vec![0u8; 64].into();
        }
        x
    };
    let l2 = mk(&d, vec![coin(&f1, 4), coin(&f1, 5)], vec![mk_coin(t, 0, Denom::Mel, &[])], 0, 0, TxKind::Normal, vec![9]); // both signed
    let m_ = {
        // spends a new-style coin, properly signed, but carries no covenant
        let mut x = mk(&d, vec![coin(&f1, 5)], vec![mk_coin(t, 0, Denom::Mel, &[])], 0, 0, TxKind::Normal, vec![10]);
        x.covenants.clear();
        let idata: Vec<Option<CoinData>> = vec![];
        let _ = idata;
        // re-sign: the hash changed with the covenants
        let hsh = x.hash_nosigs();
        x.sigs = vec![d.wal.keys[1].1.sign(&hsh.0).into()];
        x
    };
    let m2 = mk(&d, vec![coin(&f1, 4)], vec![mk_coin(t, 0, Denom::Mel, &[])], 0, 0, TxKind::Normal, vec![11]); // carries the same covenant
    let p_ = mk(&d, vec![coin(&f1, 7)], vec![mk_coin(t, 0, Denom::Mel, &[])], 0, -1, TxKind::Normal, vec![12]);   // pays minimum - 1
    let q_ = mk(&d, vec![coin(&f1, 9)], vec![mk_coin(t, 0, Denom::Mel, &[])], 0, 5_000_000, TxKind::Normal, vec![13]); // overpays a lot
    let epoch = d.view().height.epoch();
    let s_ = {
        let doc = StakeDoc { pubkey: d.wal.keys[2].0, e_start: epoch + 1, e_post_end: epoch + 2, syms_staked: CoinValue(5 * v) };
        mk(&d, vec![coin(&f1, 6), coin(&f1, 7)], vec![mk_coin(n2, 5 * v, Denom::Sym, &[]), mk_coin(t, 0, Denom::Mel, &[])], 1, 0, TxKind::Stake, stdcode::serialize(&doc).unwrap())
    };
    let ss = mk(&d, vec![coin(&s_, 0), coin(&s_, 1)], vec![mk_coin(t, 5 * v, Denom::Sym, &[]), mk_coin(t, 0, Denom::Mel, &[])], 1, 0, TxKind::Normal, vec![14]);
    let sc = mk(&d, vec![coin(&s_, 1)], vec![mk_coin(t, 0, Denom::Mel, &[])], 0, 0, TxKind::Normal, vec![15]); // spends only the change of the stake
    let f1s = { let mut x = f1.clone(); x.sigs.push(vec![7u8; 4].into()); x };   // the same faucet, other bytes in its signature field
    let names: Vec<(&str, Transaction)> = vec![
        ("F1", f1.clone()), ("F1s", f1s), ("A", a), ("B", b), ("C", c), ("D", dd), ("E", e), ("G", g), ("G2", g2), ("N", n), ("X", x), ("I", i_), ("J", j_), ("K", k_), ("L", l_), ("L2", l2),
        ("M", m_), ("M2", m2), ("P", p_), ("Q", q_), ("S", s_), ("SS", ss), ("SC", sc),
    ];
    // states to enumerate from: before F1; after F1; after F1 + A; after F1 + A + S sealed (stake in the state, next block)
    let mut bases: Vec<(usize, &str)> = vec![(d.cur, "genesis")];
    d.apply(&[f1.clone()], 0, json!({"why": "universe: F1"}));
    bases.push((d.cur, "after F1"));
    let a_tx = names[2].1.clone();
    let s_tx = names[20].1.clone();
    let saved = d.cur;
    d.apply(&[a_tx], 0, json!({"why": "universe: A"}));
    bases.push((d.cur, "after F1, A"));
    d.apply(&[s_tx], 0, json!({"why": "universe: S"}));
    d.seal_next(Some(true));
    bases.push((d.cur, "after F1, A, S and a block boundary"));
    let _ = saved;
    let nn = names.len();
    for (bi, (base, bname)) in bases.iter().enumerate() {
        // length 1 and 2: everything; length 3: everything at the base "after F1" when maxlen >= 3, otherwise a curated list of related triples
        for i in 0..nn {
            d.w.batch(*base, &[names[i].1.clone()], 0, json!({"why": format!("universe [{}] at {}", names[i].0, bname)}));
        }
        for i in 0..nn {
            for j in 0..nn {
                d.w.batch(*base, &[names[i].1.clone(), names[j].1.clone()], if (i + j) % 3 == 0 { 2 } else { 0 },
                          json!({"why": format!("universe [{}, {}] at {}", names[i].0, names[j].0, bname)}));
            }
        }
        if bi == 1 {
            for i in 0..nn {
                for j in 0..nn {
                    for k in 0..nn {
                        let related = {
                            let txs = [&names[i].1, &names[j].1, &names[k].1];
                            // keep triples in which every transaction shares an input or spends an output of another member
                            let linked = |x: &Transaction, y: &Transaction| x.inputs.iter().any(|c| y.inputs.contains(c) || c.txhash == y.hash_nosigs()) || y.inputs.iter().any(|c| c.txhash == x.hash_nosigs());
                            (0..3).all(|p| (0..3).any(|q| p != q && linked(txs[p], txs[q])))
                        };
                        if maxlen >= 3 || (related && i != j && j != k && i != k) {
                            d.w.batch(*base, &[names[i].1.clone(), names[j].1.clone(), names[k].1.clone()], 0,
                                      json!({"why": format!("universe [{}, {}, {}] at {}", names[i].0, names[j].0, names[k].0, bname)}));
                        }
                    }
                }
            }
        }
    }
}

//! Hostile and boundary-valued input (C09): transactions built from field classes (zero / maximal / overflowing values,
//! empty / oversized vectors, undecodable proofs, stake documents and pool names, garbage covenants and signatures),
//! applied on side branches of a small history and sealed with extreme proposer actions.
use crate::drive::Driver;
use crate::swapdrive;
use crate::wallet::{mk_coin, CovKind};
use ethnum::U256;
use melstructs::*;
use melvm::{opcode::OpCode, Covenant};
use rand::{seq::SliceRandom, Rng};
use serde_json::json;
use std::collections::BTreeMap;

const MAXV: u128 = 1u128 << 120;

fn value_class(r: &mut impl Rng) -> u128 {
    match r.gen_range(0..9) {
        0 => 0,
        1 => 1,
        2 => MAXV - 1,
        3 => MAXV,
        4 => MAXV + 1,
        5 => u128::MAX,
        6 => 1 << 64,
        _ => r.gen_range(0..100000),
    }
}

fn data_class(d: &mut Driver) -> (Vec<u8>, &'static str) {
    let pools = swapdrive::known_pools(d);
    match d.r.gen_range(0..14) {
        0 => (vec![], "empty"),
        1..=3 => {
            let k = pools.choose(&mut d.r).map(|x| x.0).unwrap_or(PoolKey::new(Denom::Mel, Denom::Sym));
            let s = d.r.gen_range(0..13);
            (swapdrive::spelling(&k, s).0, "pool-key spelling")
        }
        4 => {
            let e: [u64; 4] = [0, 1, 2, u64::MAX];
            let doc = StakeDoc { pubkey: d.wal.keys[0].0, e_start: e[d.r.gen_range(0..4)], e_post_end: e[d.r.gen_range(0..4)], syms_staked: CoinValue(value_class(&mut d.r)) };
            (stdcode::serialize(&doc).unwrap(), "stake doc")
        }
        5 => {
            let diffs: [u32; 9] = [0, 1, 63, 64, 65, 100, 101, 128, u32::MAX];
            let proofs: [Vec<u8>; 4] = [vec![], vec![0u8; 40], vec![0u8; 39], vec![0xffu8; 80]];
            (stdcode::serialize(&(diffs[d.r.gen_range(0..9)], proofs[d.r.gen_range(0..4)].clone())).unwrap(), "mint data")
        }
        6 => ((0..d.r.gen_range(1..80)).map(|_| d.r.gen()).collect(), "random bytes"),
        7 => (vec![0u8; 32], "32 zero bytes"),
        8 => (vec![0u8; 33], "33 zero bytes"),
        9 => (b"m".to_vec(), "m"),
        10 => (b"s".to_vec(), "s"),
        11 => (b"d".to_vec(), "d"),
        12 => (vec![0xaa; 5000], "5000 bytes"),
        _ => (vec![1], "one byte"),
    }
}

fn covenant_class(d: &mut Driver) -> (Vec<bytes::Bytes>, &'static str) {
    match d.r.gen_range(0..6) {
        0 => (vec![], "none"),
        1 => (vec![vec![0xf0u8, 0x10, 1].into()], "undecodable"),
        2 => {
            let mut ops = vec![];
            for _ in 0..18 {
                ops.push(OpCode::Loop(0, 65535));
            }
            ops.push(OpCode::PushIC(U256::ONE));
            (vec![Covenant::from_ops(&ops).to_bytes()], "nested loops")
        }
        3 => (vec![Covenant::from_ops(&[OpCode::PushB(vec![7; 255]), OpCode::Loop(40, 2), OpCode::Dup, OpCode::BAppend, OpCode::BtoI]).to_bytes()], "doubling"),
        4 => ((0..40).map(|i| Covenant::from_ops(&[OpCode::PushIC(U256::from(i as u32))]).to_bytes()).collect(), "forty covenants"),
        _ => (vec![vec![0u8; 3000].into()], "3000 zero bytes"),
    }
}

pub fn boundary(out: &mut crate::Out, tag: &str, seed: u64, cases: usize) {
    let mut d = Driver::new(out, tag, seed, NetID::Custom02, 500, Denom::Mel, 1u128 << 60, 1 << 40, BTreeMap::new());
    d.wal.simple = true;
    d.seal_next(Some(false));
    let a = d.wal.address(CovKind::New(0));
    let t = d.wal.address(CovKind::True);
    let mut outs = vec![];
    for i in 0..8 {
        outs.push(mk_coin(if i % 2 == 0 { a } else { t }, 1_000_000_000 + i, Denom::Mel, &[]));
        outs.push(mk_coin(a, 2_000_000_000 + i, Denom::Sym, &[]));
        outs.push(mk_coin(t, 3_000_000_000 + i, Denom::Erg, &[]));
    }
    outs.push(mk_coin(t, 0, Denom::Mel, &[]));
    outs.push(mk_coin(t, 0, Denom::Sym, &[]));
    let f = d.faucet(outs, 0, 1);
    d.apply(&[f], 0, json!({"why": "holders"}));
    d.seal_next(Some(true));
    // liquidity tokens and a custom token in the wallet
    if let Some((t, _)) = swapdrive::deposit_tx(&mut d, PoolKey::new(Denom::Mel, Denom::Sym), 3, 3, 0, &[]) {
        d.apply(&[t], 0, json!({"why": "deposit"}));
    }
    swapdrive::new_token(&mut d);
    d.seal_next(Some(true));
    let kinds = [TxKind::Normal, TxKind::Stake, TxKind::DoscMint, TxKind::Swap, TxKind::LiqDeposit, TxKind::LiqWithdraw, TxKind::Faucet];
    for case in 0..cases {
        // start from something valid and push fields to their class boundaries
        let base = match d.r.gen_range(0..4) {
            0 => d.random_pay(),
            1 => { let (s, f) = (d.r.gen(), d.r.gen_range(0..5)); swapdrive::swap_tx(&mut d, PoolKey::new(Denom::Mel, Denom::Sym), s, f, 0, TxKind::Swap, &[]).map(|x| x.0) }
            2 => { let (f1, f2) = (d.r.gen_range(0..6), d.r.gen_range(0..6)); swapdrive::deposit_tx(&mut d, PoolKey::new(Denom::Mel, Denom::Sym), f1, f2, 0, &[]).map(|x| x.0) }
            _ => { let all = d.r.gen_bool(0.5); swapdrive::withdraw_tx(&mut d, PoolKey::new(Denom::Mel, Denom::Sym), all, 0, &[]).map(|x| x.0) }
        };
        let Some(mut tx) = base else { continue };
        let mut what: Vec<String> = vec![];
        let nm = d.r.gen_range(1..4);
        let mut resign = true;
        for _ in 0..nm {
            match d.r.gen_range(0..12) {
                0 => { tx.kind = kinds[d.r.gen_range(0..7)]; what.push(format!("kind {:?}", tx.kind)); }
                1 => { if let Some(o) = tx.outputs.choose_mut(&mut d.r) { o.value = CoinValue(value_class(&mut d.r)); what.push(format!("output value {}", o.value.0)); } }
                2 => { tx.fee = CoinValue(value_class(&mut d.r)); what.push(format!("fee {}", tx.fee.0)); }
                3 => { let (dt, n) = data_class(&mut d); tx.data = dt.into(); what.push(format!("data {}", n)); }
                4 => { let (c, n) = covenant_class(&mut d); tx.covenants = c; resign = false; what.push(format!("covenants {}", n)); }
                5 => {
                    let n = [0usize, 1, 2, 255, 256, 300][d.r.gen_range(0..6)];
                    let v = value_class(&mut d.r);
                    let den = [Denom::Mel, Denom::Sym, Denom::Erg, Denom::NewCustom, Denom::Custom(TxHash(tmelcrypt::hash_single(b"c")))][d.r.gen_range(0..5)];
                    tx.outputs = (0..n).map(|_| mk_coin(a, v, den, &[])).collect();
                    what.push(format!("{} outputs of {} {:?}", n, v, den));
                }
                6 => { tx.inputs.clear(); what.push("no inputs".into()); }
                7 => { let c = tx.inputs.first().copied(); if let Some(c) = c { tx.inputs = vec![c; [2usize, 300][d.r.gen_range(0..2)]]; } what.push("repeated inputs".into()); }
                8 => { tx.sigs = vec![vec![0u8; 65].into(), vec![].into(), vec![1u8; 64].into()]; resign = false; what.push("garbage sigs".into()); }
                9 => { if let Some(o) = tx.outputs.first_mut() { o.denom = [Denom::NewCustom, Denom::Erg, Denom::Custom(TxHash(tmelcrypt::hash_single(b"q")))][d.r.gen_range(0..3)]; what.push(format!("first output denom {:?}", o.denom)); } }
                10 => { if let Some(o) = tx.outputs.first_mut() { o.covhash = Address::coin_destroy(); what.push("first output destroyed".into()); } }
                _ => { if let Some(o) = tx.outputs.first_mut() { o.additional_data = vec![0x11; 4000].into(); what.push("4000 bytes of additional data".into()); } }
            }
        }
        if resign {
            d.resign(&mut tx);
        }
        let (nid, ok) = d.w.batch(d.cur, &[tx], 0, json!({"why": what, "case": case}));
        if ok {
            let delta: i8 = [-128i8, -64, -1, 0, 1, 127][d.r.gen_range(0..6)];
            let act = if d.r.gen_bool(0.7) { Some(ProposerAction { fee_multiplier_delta: delta, reward_dest: a }) } else { None };
            d.w.seal(nid, act, json!({"why": "seal after boundary case", "case": case}));
        }
        if case % 40 == 39 {
            // move the main line on a little so that heights and pools change
            crate::drive::step(&mut d);
            d.seal_next(None);
        }
    }
    // directed: coins and payments at exact value boundaries (2^64 - 1, 2^64, 2^64 + 1, 2^120 - 1, 2^120), fees across 2^64
    {
        let vals: Vec<u128> = vec![(1u128 << 64) - 1, 1u128 << 64, (1u128 << 64) + 1, (1u128 << 120) - 1, 1u128 << 120, 1u128 << 100, 255, 256, 65535, 65536];
        let mut outs = vec![];
        for v in vals.iter() {
            outs.push(mk_coin(a, *v, Denom::Mel, &[]));
            outs.push(mk_coin(t, *v, Denom::Sym, &[]));
        }
        let f = d.faucet(outs, 0, 200);
        let (base, ok) = d.w.batch(d.cur, &[f.clone()], 0, json!({"why": "faucet of boundary-valued coins"}));
        if ok {
            let save = d.cur;
            d.cur = base;
            let h = d.view().height;
            for (i, o) in f.outputs.iter().enumerate() {
                let c = (CoinID::new(f.hash_nosigs(), i as u8), CoinDataHeight { coin_data: o.clone(), height: h });
                let mut ins = vec![c.clone()];
                if o.denom != Denom::Mel {
                    if let Some(fee) = swapdrive::mel_fee_coin(&d, &[c.0]) {
                        ins.push(fee);
                    }
                }
                for shape in 0..3 {
                    let fixed = match shape {
                        0 => vec![],
                        1 => vec![mk_coin(t, 1, o.denom, &[])],
                        _ => vec![mk_coin(t, o.value.0 / 2, o.denom, &[]), mk_coin(a, o.value.0 / 4, o.denom, &[])],
                    };
                    let tip = if shape == 2 { 1u128 << 40 } else { 0 };
                    if let Some(tx) = d.build(TxKind::Normal, &ins, fixed, 1, vec![], tip) {
                        let (nid, ok) = d.w.batch(d.cur, &[tx], 0, json!({"why": format!("boundary-valued coin {} {:?} spent, shape {}", o.value.0, o.denom, shape)}));
                        if ok && shape == 2 {
                            d.w.seal(nid, Some(ProposerAction { fee_multiplier_delta: 127, reward_dest: a }), json!({"why": "seal after boundary-valued payment"}));
                        }
                    }
                }
            }
            d.cur = save;
        }
    }
    // directed: more than 256 inputs in one transaction (the spender index of the covenant environment is one byte)
    {
        let i0 = d.wal.address(CovKind::Idx0);
        let mut fs = vec![];
        for part in 0..2u8 {
            let outs: Vec<CoinData> = (0..140).map(|k| mk_coin(if part == 1 && k == 116 { i0 } else { t }, 1_000_000 + k as u128, Denom::Mel, &[])).collect();
            fs.push(d.faucet(outs, 0, 210 + part));
        }
        let (base, ok) = d.w.batch(d.cur, &fs, 0, json!({"why": "two faucets of 140 coins"}));
        if ok {
            let save = d.cur;
            d.cur = base;
            let h = d.view().height;
            let mut ins: Vec<(CoinID, CoinDataHeight)> = vec![];
            for f in fs.iter() {
                for (i, o) in f.outputs.iter().enumerate() {
                    ins.push((CoinID::new(f.hash_nosigs(), i as u8), CoinDataHeight { coin_data: o.clone(), height: h }));
                }
            }
            // the index-bound coin sits at position 256 (140 + 116), i.e. spender index 0 modulo 256
            for n in [255usize, 256, 257, 280] {
                if let Some(tx) = d.build(TxKind::Normal, &ins[..n], vec![], 1, vec![], 0) {
                    d.w.batch(d.cur, &[tx], 0, json!({"why": format!("{} inputs in one transaction", n)}));
                }
            }
            d.cur = save;
        }
    }
    // directed: degenerate transactions of every kind (nothing in, nothing or next to nothing out, no fee)
    {
        let pools = swapdrive::known_pools(&d);
        let key = pools.first().map(|x| x.0).unwrap_or(PoolKey::new(Denom::Mel, Denom::Sym));
        let doc = StakeDoc { pubkey: d.wal.keys[0].0, e_start: 5, e_post_end: 9, syms_staked: CoinValue(0) };
        let datas: Vec<(Vec<u8>, &str)> = vec![(vec![], "empty"), (stdcode::serialize(&(8u32, vec![0u8; 40])).unwrap(), "mint data"), (stdcode::serialize(&doc).unwrap(), "stake doc"),
                                              (key.to_bytes().to_vec(), "pool key")];
        let outsets: Vec<(Vec<CoinData>, &str)> = vec![
            (vec![], "no outputs"), (vec![mk_coin(t, 0, Denom::Mel, &[])], "one zero MEL output"), (vec![mk_coin(t, 0, Denom::Erg, &[])], "one zero ERG output"),
            (vec![mk_coin(t, 5, Denom::Erg, &[])], "5 ERG"), (vec![mk_coin(t, 0, Denom::NewCustom, &[])], "zero new token"), (vec![mk_coin(t, 0, Denom::Sym, &[]), mk_coin(t, 0, Denom::Sym, &[])], "two zero SYM"),
        ];
        for kind in kinds.iter() {
            for (outs, on) in outsets.iter() {
                for (data, dn) in datas.iter() {
                    let tx = Transaction { kind: *kind, inputs: vec![], outputs: outs.clone(), fee: CoinValue(0), covenants: vec![], data: data.clone().into(), sigs: vec![] };
                    let (nid, ok) = d.w.batch(d.cur, &[tx], 0, json!({"why": format!("degenerate {:?}: no inputs, {}, fee 0, data {}", kind, on, dn)}));
                    if ok {
                        d.w.seal(nid, None, json!({"why": "seal after degenerate case"}));
                    }
                }
            }
        }
    }
    // directed: the overflow of total_outputs (255 outputs of 2^120 and a fee of 2^120 against a zero-valued MEL input)
    let zero = d.coins().into_iter().find(|(_, x)| x.coin_data.denom == Denom::Mel && x.coin_data.value.0 == 0);
    if let Some(z) = zero {
        let mut tx = Transaction { kind: TxKind::Normal, inputs: vec![z.0], outputs: (0..255).map(|_| mk_coin(t, MAXV, Denom::Mel, &[])).collect(), fee: CoinValue(MAXV),
                                   covenants: vec![], data: vec![].into(), sigs: vec![] };
        d.resign(&mut tx);
        d.w.batch(d.cur, &[tx.clone()], 0, json!({"why": "255 outputs of 2^120 MEL and a fee of 2^120 spending a zero-valued coin"}));
        tx.kind = TxKind::Faucet;
        tx.inputs.clear();
        d.w.batch(d.cur, &[tx], 0, json!({"why": "faucet with 255 outputs of 2^120 MEL and a fee of 2^120"}));
    }
}

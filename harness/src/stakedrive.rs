//! Stake workloads (C13): stake documents in every ordering of current / start / end epoch, wrong amounts, wrong
//! denomination, undecodable data; spend attempts of the staked coin and of the change in the same batch, later blocks and
//! later epochs, across epoch boundaries reached by fabricating states at the boundary heights.
use crate::drive::Driver;
use crate::wallet::{mk_coin, CovKind};
use melstructs::*;
use rand::Rng;
use serde_json::json;
use std::collections::BTreeMap;

pub fn stake_tx(d: &mut Driver, sym: &(CoinID, CoinDataHeight), fee: &(CoinID, CoinDataHeight), staked: u128, declared: u128, start: u64, end: u64, key: usize,
                mode: u32) -> Option<Transaction> {
    let a = d.wal.address(CovKind::New(key));
    let doc = StakeDoc { pubkey: d.wal.keys[key].0, e_start: start, e_post_end: end, syms_staked: CoinValue(declared) };
    let data = match mode {
        1 => vec![1, 2, 3],                         // undecodable
        _ => stdcode::serialize(&doc).unwrap(),
    };
    let first = match mode {
        2 => mk_coin(a, 1000, Denom::Mel, &[]),     // first output is not SYM
        _ => mk_coin(a, staked, Denom::Sym, &[]),
    };
    d.build(TxKind::Stake, &[sym.clone(), fee.clone()], vec![first], 1, data, 0)
}

pub fn stake_history(out: &mut crate::Out, tag: &str, seed: u64, net: NetID, start_height: u64) {
    let mainnet = net == NetID::Mainnet;
    let mut d = if mainnet {
        // no faucets on mainnet: start from SYM and earn MEL as proposer rewards out of a large initial fee pool
        Driver::new(out, tag, seed, net, 100, Denom::Sym, 1u128 << 50, 1 << 46, BTreeMap::new())
    } else {
        Driver::new(out, tag, seed, net, 100, Denom::Mel, 1u128 << 60, 1 << 20, BTreeMap::new())
    };
    d.wal.simple = true;
    let s0 = d.seal_next(Some(false)).unwrap();
    let _ = s0;
    if mainnet {
        for _ in 0..8 {
            d.seal_next(Some(true));
        }
        // split the SYM into holder coins; rewards pay the fees
        for _round in 0..3 {
            let sp = d.spendable();
            let sym = sp.iter().filter(|(_, x)| x.coin_data.denom == Denom::Sym).max_by_key(|(_, x)| x.coin_data.value.0).cloned();
            let fee = sp.iter().find(|(_, x)| x.coin_data.denom == Denom::Mel && x.coin_data.value.0 > 10_000_000).cloned();
            if let (Some(sym), Some(fee)) = (sym, fee) {
                let fixed: Vec<CoinData> = (0..4).map(|i| { let a = d.wal.address(CovKind::New(i % 4)); mk_coin(a, 1_000_000 + i as u128, Denom::Sym, &[]) }).collect();
                if let Some(t) = d.build(TxKind::Normal, &[sym, fee], fixed, 2, vec![], 0) {
                    d.apply(&[t], 0, json!({"why": "split SYM"}));
                }
            }
        }
    }
    if net != NetID::Mainnet {
        let mut outs = vec![];
        for i in 0..12 {
            let a = d.wal.address(CovKind::New(i % 4));
            outs.push(mk_coin(a, 1_000_000 + i as u128, Denom::Sym, &[]));
            outs.push(mk_coin(a, 60_000_000, Denom::Mel, &[]));
        }
        let f = d.faucet(outs, 0, 3);
        d.apply(&[f], 0, json!({"why": "holders"}));
    }
    let mut sealed = d.seal_next(Some(true)).unwrap();
    // states above the TIP-906 activation height of mainnet are reached through the activation itself (counts get initialised)
    if net == NetID::Mainnet && start_height > 830_000 {
        let j = d.w.jump(sealed, 829_999);
        d.cur = d.w.next(j);
        d.block_start = d.cur;
        d.block_batches.clear();
        sealed = d.seal_next(Some(true)).unwrap();
    }
    if net == NetID::Testnet && start_height > 500 {
        let j = d.w.jump(sealed, 499);
        d.cur = d.w.next(j);
        d.block_start = d.cur;
        d.block_batches.clear();
        sealed = d.seal_next(Some(true)).unwrap();
    }
    // go to just below an epoch boundary
    let j = d.w.jump(sealed, start_height);
    d.cur = d.w.next(j);
    d.block_start = d.cur;
    d.block_batches.clear();
    let epoch0 = (start_height + 1) / STAKE_EPOCH;
    let mut staked: Vec<(Transaction, u64, u64)> = vec![];
    let keys: Vec<tmelcrypt::Ed25519PK> = d.wal.keys.iter().map(|k| k.0).collect();
    // stake documents over all orderings of (current epoch, start, end) and the other defects
    let cases: Vec<(i64, i64, u128, u32)> = vec![
        (1, 2, 0, 9), (1, 2, 0, 0), (1, 3, 0, 0), (2, 3, 0, 0), (0, 2, 0, 0), (1, 1, 0, 0), (2, 1, 0, 0), (-1, 2, 0, 0), (1, 2, 1, 0), (1, 2, 0, 1), (1, 2, 0, 2), (1, 4, 0, 0),
        // ends at the largest representable epoch and just below it (modes 10, 11); starts there too (mode 12)
        (1, 0, 0, 10), (1, 0, 0, 11), (0, 0, 0, 12),
    ];
    for (ci, (ds, de, diff, mode)) in cases.iter().enumerate() {
        let sp = d.spendable();
        let sym = sp.iter().find(|(_, x)| x.coin_data.denom == Denom::Sym && x.coin_data.value.0 > 1000);
        let fee = sp.iter().find(|(_, x)| x.coin_data.denom == Denom::Mel && x.coin_data.value.0 > 1_000_000);
        let (Some(sym), Some(fee)) = (sym.cloned(), fee.cloned()) else { break };
        let amount = if *mode == 9 { 0 } else { sym.1.coin_data.value.0 / 2 };   // mode 9: a stake of zero SYM (declared 0)
        let start = (epoch0 as i64 + ds).max(0) as u64;
        let end = match *mode { 10 | 12 => u64::MAX, 11 => u64::MAX - 1, _ => (epoch0 as i64 + de).max(0) as u64 };
        let start = if *mode == 12 { u64::MAX - 1 } else { start };
        if let Some(t) = stake_tx(&mut d, &sym, &fee, amount, amount + diff, start, end, ci % 4, *mode) {
            same_batch_spends(&mut d, &t);
            let ok = d.apply(&[t.clone()], 0, json!({"why": format!("stake start {} end {} (current epoch {}) declared-diff {} mode {}", start, end, epoch0, diff, mode)}));
            if ok {
                staked.push((t.clone(), start, end));
                // spend attempts in the same block: staked coin, change coin
                try_spends(&mut d, &t, "same block");
                // and a spender inside the same batch as a second stake
            }
        }
        if ci % 3 == 2 {
            // every stake registered so far: spend attempts in this block too (every height of the walk, e.g. exactly 900 000 on Mainnet)
            for (t, _, _) in staked.clone().iter() {
                try_spends(&mut d, t, "during the walk");
            }
            d.seal_next(None);
        }
    }
    // sibling blocks: two competing continuations of one parent, each registering a different stake, sealed one after the other; then the
    // parent, both siblings and a child of each are looked at again (a header is a function of its own state's contents, whatever
    // was derived from it or next to it in the same process)
    {
        let cur_epoch = d.view().height.epoch();
        if let Some(parent) = d.seal_next(Some(true)) {
            let base = d.cur;
            let locked: Vec<TxHash> = d.view().stakes.iter().map(|(k, _)| *k).collect();
            let sp: Vec<_> = d.spendable().into_iter().filter(|(c, _)| !locked.contains(&c.txhash)).collect();
            let syms: Vec<_> = sp.iter().filter(|(_, x)| x.coin_data.denom == Denom::Sym && x.coin_data.value.0 > 1000).take(2).cloned().collect();
            let fees: Vec<_> = sp.iter().filter(|(_, x)| x.coin_data.denom == Denom::Mel && x.coin_data.value.0 > 1_000_000).take(2).cloned().collect();
            if syms.len() == 2 && fees.len() == 2 {
                let mut sibs = vec![];
                for i in 0..2usize {
                    d.cur = base;
                    let amount = syms[i].1.coin_data.value.0 / 2;
                    if let Some(t) = stake_tx(&mut d, &syms[i], &fees[i], amount, amount, cur_epoch + 1, cur_epoch + 3 + i as u64, i, 0) {
                        let (u, ok) = d.w.batch(base, &[t], 0, json!({"why": format!("sibling block {}: a stake of its own", i)}));
                        if ok {
                            let dest = d.wal.address(CovKind::New(i));
                            if let Some(s) = d.w.seal(u, Some(ProposerAction { fee_multiplier_delta: 0, reward_dest: dest }), json!({"why": "sibling block sealed"})) {
                                sibs.push(s);
                            }
                        }
                    }
                }
                d.w.reobserve(parent);
                for s in sibs.clone() {
                    d.w.reobserve(s);
                }
                for s in sibs.clone() {
                    let u = d.w.next(s);
                    if let Some(c) = d.w.seal(u, None, json!({"why": "child of a sibling block"})) {
                        d.w.reobserve(c);
                    }
                    d.w.reobserve(s);
                    d.w.reobserve(parent);
                }
            }
            d.cur = base;
        }
    }
    // several stake transactions in one batch, consistent and inconsistent ones mixed, in every order
    {
        let cur_epoch = d.view().height.epoch();
        let locked: Vec<TxHash> = d.view().stakes.iter().map(|(k, _)| *k).collect();
        let sp: Vec<_> = d.spendable().into_iter().filter(|(c, _)| !locked.contains(&c.txhash)).collect();
        let syms: Vec<_> = sp.iter().filter(|(_, x)| x.coin_data.denom == Denom::Sym && x.coin_data.value.0 > 1000).take(3).cloned().collect();
        let fees: Vec<_> = sp.iter().filter(|(_, x)| x.coin_data.denom == Denom::Mel && x.coin_data.value.0 > 1_000_000).take(3).cloned().collect();
        if syms.len() == 3 && fees.len() == 3 {
            let specs: [(u64, u64, u128); 3] = [(cur_epoch + 1, cur_epoch + 3, 0), (cur_epoch + 1, cur_epoch + 2, 7), (cur_epoch, cur_epoch + 2, 0)]; // good, wrong amount, starts now
            let mut txs = vec![];
            for (i, (st, en, diff)) in specs.iter().enumerate() {
                let amount = syms[i].1.coin_data.value.0 / 2;
                if let Some(t) = stake_tx(&mut d, &syms[i], &fees[i], amount, amount + diff, *st, *en, i % 4, 0) {
                    txs.push(t);
                }
            }
            if txs.len() == 3 {
                let mut ids: Vec<String> = txs.iter().map(|t| crate::lj::hx(&t.hash_nosigs().0)).collect();
                ids.sort();
                let key = format!("C03|{}|stakes|{}", d.cur, ids.join(","));
                let pre = d.cur;
                let mut last = None;
                for (pi, p) in crate::drive::permutations(3, 6, &mut d.r).iter().enumerate() {
                    let batch: Vec<Transaction> = p.iter().map(|i| txs[*i].clone()).collect();
                    let (nid, ok) = d.w.batch(pre, &batch, [0usize, 2][pi % 2], json!({"why": "three stake transactions (consistent, wrong amount, starting now) in one batch", "agreeKey": key, "perm": p}));
                    if ok {
                        last = Some(nid);
                    }
                }
                let mut s1 = pre;
                let mut all = true;
                for t in txs.iter() {
                    let (nid, ok) = d.w.batch(s1, std::slice::from_ref(t), 0, json!({"why": "stake transactions one at a time"}));
                    if ok {
                        s1 = nid;
                    } else {
                        all = false;
                    }
                }
                if all {
                    // only a fold in which every member was accepted has to equal the batch
                    d.w.batch(s1, &[], 0, json!({"why": "stake fold end", "agreeKey": key, "fold": true}));
                }
                if let Some(nid) = last {
                    d.cur = nid;
                    d.block_batches.push(txs.clone());
                    staked.push((txs[0].clone(), cur_epoch + 1, cur_epoch + 3));
                }
            }
        }
    }
    // a stake and a spend of its output in one batch
    {
        let sp = d.spendable();
        let sym = sp.iter().find(|(_, x)| x.coin_data.denom == Denom::Sym && x.coin_data.value.0 > 1000).cloned();
        let fee = sp.iter().find(|(_, x)| x.coin_data.denom == Denom::Mel && x.coin_data.value.0 > 1_000_000).cloned();
        if let (Some(sym), Some(fee)) = (sym, fee) {
            let amount = sym.1.coin_data.value.0 / 2;
            let ce = d.view().height.epoch();
            if let Some(t) = stake_tx(&mut d, &sym, &fee, amount, amount, ce + 1, ce + 2, 1, 0) {
                let h = d.view().height;
                let c0 = (CoinID::new(t.hash_nosigs(), 0), CoinDataHeight { coin_data: t.outputs[0].clone(), height: h });
                let fee2 = d.spendable().into_iter().find(|(c, x)| x.coin_data.denom == Denom::Mel && x.coin_data.value.0 > 1_000_000 && !t.inputs.contains(c));
                if let Some(fee2) = fee2 {
                    if let Some(sp) = d.build(TxKind::Normal, &[c0, fee2], vec![], 1, vec![], 0) {
                        d.apply(&[t.clone(), sp.clone()], 0, json!({"why": "stake and spend of the staked coin in one batch"}));
                        d.apply(&[sp, t.clone()], 0, json!({"why": "spend of the staked coin before the stake in one batch"}));
                    }
                }
                if d.apply(&[t.clone()], 0, json!({"why": "stake alone"})) {
                    staked.push((t, ce + 1, ce + 2));
                }
            }
        }
    }
    let mut sealed = d.seal_next(Some(true)).unwrap();
    d.w.votes(sealed, epoch0, &keys);
    crate::chaindrive::proofs(&mut d.w, sealed);
    // walk over the boundary block by block, then jump epoch by epoch
    for _ in 0..4 {
        for (t, _, _) in staked.clone().iter() {
            try_spends(&mut d, t, "later block");
        }
        sealed = d.seal_next(None).unwrap();
        d.w.restart(sealed);
        let e = d.w.sealed(sealed).header().height.0 / STAKE_EPOCH;
        d.w.votes(sealed, e, &keys);
        d.w.votes(sealed, e + 1, &keys);
    }
    for k in 1..=5u64 {
        let target = (epoch0 + k + 1) * STAKE_EPOCH - 2;
        if net == NetID::Mainnet && start_height < 830_000 && target >= 830_000 {
            break; // would skip the TIP-906 activation
        }
        let j = d.w.jump(sealed, target);
        d.cur = d.w.next(j);
        d.block_start = d.cur;
        d.block_batches.clear();
        for _ in 0..3 {
            for (t, _, _) in staked.clone().iter() {
                try_spends(&mut d, t, "later epoch");
            }
            let wa = if d.r.gen_bool(0.5) { Some(true) } else { None };
            sealed = d.seal_next(wa).unwrap();
            let twin = d.w.restart(sealed);
            crate::chaindrive::proofs(&mut d.w, sealed);
            crate::chaindrive::proofs(&mut d.w, twin);
            // the twin's next block boundary must look the same
            let key = format!("C08|{}|next|{}", tag, d.w.sealed(sealed).header().height.0);
            let _ = (twin, key);
            let e = d.w.sealed(sealed).header().height.0 / STAKE_EPOCH;
            d.w.votes(sealed, e, &keys);
        }
    }
}

/// tries to spend output 0 (the staked coin) and the last output (change) of a stake transaction, each on a clone
/// the stake transaction and a spender of one of its outputs in ONE batch (the stake is not in the state yet), both orders
fn same_batch_spends(d: &mut Driver, t: &Transaction) {
    let id = t.hash_nosigs();
    let h = d.view().height;
    for idx in 0..t.outputs.len() {
        let cid = CoinID::new(id, idx as u8);
        let cdh = CoinDataHeight { coin_data: t.outputs[idx].clone(), height: h };
        let mut ins = vec![(cid, cdh.clone())];
        if cdh.coin_data.denom != Denom::Mel {
            let fee = d.spendable().into_iter().find(|(c, x)| x.coin_data.denom == Denom::Mel && x.coin_data.value.0 > 1_000_000 && !t.inputs.contains(c));
            match fee {
                Some(f) => ins.push(f),
                None => continue,
            }
        }
        if let Some(sp) = d.build(TxKind::Normal, &ins, vec![], 1, vec![], 0) {
            d.w.batch(d.cur, &[t.clone(), sp.clone()], 0, json!({"why": format!("stake transaction and a spender of its output {} in one batch", idx)}));
            d.w.batch(d.cur, &[sp, t.clone()], 2, json!({"why": format!("a spender of output {} and the stake transaction in one batch", idx)}));
        }
    }
}

fn try_spends(d: &mut Driver, t: &Transaction, when: &str) {
    let coins: BTreeMap<CoinID, CoinDataHeight> = d.coins().into_iter().collect();
    let id = t.hash_nosigs();
    for idx in [0usize, t.outputs.len() - 1] {
        let cid = CoinID::new(id, idx as u8);
        let Some(cdh) = coins.get(&cid).cloned() else { continue };
        let mut ins = vec![(cid, cdh.clone())];
        if cdh.coin_data.denom != Denom::Mel {
            let fee = d.spendable().into_iter().find(|(c, x)| x.coin_data.denom == Denom::Mel && x.coin_data.value.0 > 1_000_000 && c.txhash != id);
            match fee {
                Some(f) => ins.push(f),
                None => continue,
            }
        }
        if let Some(sp) = d.build(TxKind::Normal, &ins, vec![], 1, vec![], 0) {
            // on a side branch: the main line keeps the coin for later attempts
            let (_, ok) = d.w.batch(d.cur, &[sp], 0, json!({"why": format!("spend output {} of a stake transaction ({})", idx, when)}));
            let _ = ok;
        }
    }
}

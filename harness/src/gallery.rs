//! Covenant gallery (C04): for every covenant family -- including covenants that read the environment through computed
//! addresses, byte strings that are almost covenants, and covenants whose verdict differs between two coins of the same
//! address -- two coins are created and spent alone, at another input position, and together in both orders, in the block that
//! created them and in the next one.  Every attempt starts from the same state (side branches); the specification decides.
use crate::drive::Driver;
use crate::wallet::{mk_coin, CovKind};
use ethnum::U256;
use melstructs::*;
use melvm::{opcode::OpCode, Covenant};
use serde_json::json;
use std::collections::BTreeMap;

fn raw(ops: &[OpCode]) -> CovKind {
    CovKind::Random(Covenant::from_ops(ops).to_bytes().to_vec())
}

pub fn kinds() -> Vec<(&'static str, CovKind, Vec<u8>, Vec<u8>)> {
    use OpCode::*;
    let i = |x: u64| PushIC(U256::from(x));
    let pi = |x: u64| PushI(U256::from(x));
    let t: Vec<u8> = Covenant::from_ops(&[i(1)]).to_bytes().to_vec();
    let cat = |a: &[u8], b: &[u8]| { let mut v = a.to_vec(); v.extend_from_slice(b); v };
    // (name, kind, additional data of the coins, data of the spending transaction)
    vec![
        ("legacy-sig", CovKind::Legacy(0), vec![], vec![]),
        ("new-sig", CovKind::New(1), vec![], vec![]),
        ("true", CovKind::True, vec![], vec![]),
        ("false", CovKind::False, vec![], vec![]),
        ("index-0", CovKind::Idx0, vec![], vec![]),
        ("index-0 through a computed address", raw(&[pi(0), pi(9), Load, Eql]), vec![], vec![]),
        ("index-1 through a computed address", raw(&[i(1), i(4), i(5), Add, Load, Eql]), vec![], vec![]),
        ("value-bound", CovKind::ValueBound(1_500_000), vec![], vec![]),
        ("value-bound through a computed address", raw(&[i(1_500_000), i(5), Load, Gt]), vec![], vec![]),
        ("height-bound through a computed address", raw(&[i(2), i(8), Load, Lt]), vec![], vec![]),
        ("coin-index through a computed address", raw(&[i(0), i(3), Load, Eql]), vec![], vec![]),
        ("hash-lock", CovKind::HashLock(vec![1, 2, 3]), vec![], vec![1, 2, 3]),
        ("hash-lock, wrong preimage", CovKind::HashLock(vec![1, 2, 4]), vec![], vec![1, 2, 3]),
        ("time-lock", CovKind::TimeLock(2), vec![], vec![]),
        ("expiry", CovKind::Expiry(2), vec![], vec![]),
        ("denom-mel", CovKind::DenomMel, vec![], vec![]),
        ("data-bound", CovKind::DataBound(2), vec![5, 5], vec![5, 5]),
        ("data-bound, other data", CovKind::DataBound(2), vec![5, 6], vec![5, 5]),
        ("env-consistent", CovKind::EnvConsistent, vec![], vec![]),
        ("self-hash and height", CovKind::SelfHashAndHeightBelow(2), vec![], vec![]),
        ("returns bytes", CovKind::ReturnsBytes, vec![], vec![]),
        ("returns an empty vector", raw(&[VEmpty]), vec![], vec![]),
        ("returns a non-empty vector", raw(&[i(0), VEmpty, VPush]), vec![], vec![]),
        ("empty program", CovKind::Random(vec![]), vec![], vec![]),
        ("leaves two values", raw(&[i(0), i(1)]), vec![], vec![]),
        ("leaves zero on top", raw(&[i(1), i(0)]), vec![], vec![]),
        ("garbage", CovKind::Garbage, vec![], vec![]),
        ("padded small integer (1 in two bytes)", CovKind::Random(vec![0xf2, 0x02, 0x00, 0x01]), vec![], vec![]),
        ("padded small integer (0 in one byte)", CovKind::Random(vec![0xf2, 0x01, 0x00, 0xf2, 0x01, 0x01]), vec![], vec![]),
        ("padded small integer (32 bytes with a leading zero)", CovKind::Random(cat(&[0xf2, 0x20, 0x00], &[1u8; 31])), vec![], vec![]),
        ("integer of 33 bytes", CovKind::Random(cat(&[0xf2, 0x21], &[1u8; 33])), vec![], vec![]),
        ("true followed by an unknown opcode", CovKind::Random(cat(&t, &[0xee])), vec![], vec![]),
        ("true followed by a truncated push", CovKind::Random(cat(&t, &[0xf0, 0x05, 0x01])), vec![], vec![]),
        ("true followed by a truncated integer", CovKind::Random(cat(&t, &[0xf1, 0x01])), vec![], vec![]),
        ("true followed by noop", CovKind::Random(cat(&t, &[0x09])), vec![], vec![]),
        ("jump past the end", raw(&[i(1), Jmp(3)]), vec![], vec![]),
        ("loop of zero iterations", raw(&[i(1), Loop(0, 1), Noop]), vec![], vec![]),
        ("loop sticking out", raw(&[i(1), Loop(2, 3), Noop]), vec![], vec![]),
    ]
}

/// Two covenants of the same length, a cheap one and one that spins a loop 65535 times, whose bytes collide under the fast
/// non-cryptographic hash the crate uses for its in-memory tables (FxHash; a difference in one 8-byte word is cancelled by the
/// next word, hidden in the literal of a PushI).  `prefixed`: the way slices hash themselves (length first), else raw bytes.
pub fn fx_colliding(prefixed: bool) -> (Vec<u8>, Vec<u8>) {
    use std::hash::Hasher;
    use OpCode::*;
    let cheap = Covenant::from_ops(&[Noop, Noop, Noop, Noop, Noop, Noop, Noop, PushI(U256::ONE)]).to_bytes().to_vec();
    let mut expensive = Covenant::from_ops(&[Loop(65535, 1), Noop, Noop, PushI(U256::ONE)]).to_bytes().to_vec();
    let st = |b: &[u8]| {
        let mut h = rustc_hash::FxHasher::default();
        if prefixed {
            h.write_usize(40);
        }
        h.write(&b[..8]);
        h.finish()
    };
    let (hc, he) = (st(&cheap), st(&expensive));
    let wc = u64::from_ne_bytes(cheap[8..16].try_into().unwrap());
    let we = wc ^ hc.rotate_left(5) ^ he.rotate_left(5);
    expensive[8..16].copy_from_slice(&we.to_ne_bytes());
    (cheap, expensive)
}

/// A coin locked by the expensive twin is spent paying only what the cheap twin costs, after a transaction carrying the cheap
/// twin has been seen; then paying in full.
fn collision_scenario(d: &mut Driver, prefixed: bool, salt: u8) {
    let (cheap, expensive) = fx_colliding(prefixed);
    if Covenant::from_bytes(&expensive).is_err() {
        return;
    }
    let ea = d.wal.address(CovKind::Random(expensive.clone()));
    let ta = d.wal.address(CovKind::True);
    let f = d.faucet(vec![mk_coin(ea, 30_000_000, Denom::Mel, &[]), mk_coin(ea, 31_000_000, Denom::Mel, &[])], 0, salt);
    if !d.apply(&[f.clone()], 0, json!({"why": "coins locked by the expensive twin"})) {
        return;
    }
    let h = d.view().height;
    let mut carrier = d.faucet(vec![mk_coin(ta, 1, Denom::Mel, &[])], 0, salt + 1);
    carrier.covenants = vec![cheap.clone().into()];
    for _ in 0..3 {
        carrier.fee = CoinValue(crate::wallet::min_fee(&carrier, d.fee_mult()));
    }
    d.apply(&[carrier], 0, json!({"why": "a transaction that merely carries the cheap twin"}));
    for (j, full) in [(0u8, false), (1u8, true)] {
        let c = (CoinID::new(f.hash_nosigs(), j), CoinDataHeight { coin_data: f.outputs[j as usize].clone(), height: h });
        let mut tx = Transaction { kind: TxKind::Normal, inputs: vec![c.0], outputs: vec![], fee: CoinValue(0), covenants: vec![expensive.clone().into()],
                                   data: vec![].into(), sigs: vec![] };
        let mut probe = tx.clone();
        if !full {
            probe.covenants = vec![cheap.clone().into()];
        }
        let mut fee = 0u128;
        for _ in 0..4 {
            probe.outputs = vec![mk_coin(ta, c.1.coin_data.value.0 - fee, Denom::Mel, &[])];
            probe.fee = CoinValue(fee);
            fee = crate::wallet::min_fee(&probe, d.fee_mult());
        }
        tx.outputs = vec![mk_coin(ta, c.1.coin_data.value.0 - fee, Denom::Mel, &[])];
        tx.fee = CoinValue(fee);
        d.apply(&[tx], 0, json!({"why": format!("spend of a coin locked by the expensive twin paying {}", if full { "its own minimum fee" } else { "the cheap twin's minimum fee" })}));
    }
}

pub fn gallery(out: &mut crate::Out, tag: &str, seed: u64, net: NetID, fee_mult: u128) {
    let mut d = Driver::new(out, tag, seed, net, fee_mult, Denom::Mel, 1u128 << 60, 1 << 30, BTreeMap::new());
    d.wal.simple = true;
    d.seal_next(Some(false));
    let ks = kinds();
    // coins: two per family (different values, different coin indices) plus always-true coins to pay with
    let mut made: Vec<(usize, CoinID, CoinDataHeight)> = vec![];
    let mut payers: Vec<(CoinID, CoinDataHeight)> = vec![];
    for (chunk_no, chunk) in ks.chunks(8).enumerate() {
        let mut outs = vec![];
        for (_, k, cdata, _) in chunk {
            let a = d.wal.address(k.clone());
            outs.push(mk_coin(a, 1_000_000, Denom::Mel, cdata));
            outs.push(mk_coin(a, 2_000_000, Denom::Mel, cdata));
        }
        let ta = d.wal.address(CovKind::True);
        for j in 0..4 {
            outs.push(mk_coin(ta, 50_000_000 + j, Denom::Mel, &[]));
        }
        let f = d.faucet(outs, 0, 100 + chunk_no as u8);
        if !d.apply(&[f.clone()], 0, json!({"why": "gallery coins"})) {
            return;
        }
        let h = d.view().height;
        for (j, o) in f.outputs.iter().enumerate() {
            let c = (CoinID::new(f.hash_nosigs(), j as u8), CoinDataHeight { coin_data: o.clone(), height: h });
            if j < chunk.len() * 2 {
                made.push((chunk_no * 8 + j / 2, c.0, c.1));
            } else {
                payers.push(c);
            }
        }
    }
    // three consecutive states (none of the gallery's spends is ever committed); every transaction is built once, against the first, and the
    // very same bytes are presented to the last state (before this process has seen them anywhere else), then to the first, the second
    // and the last again: what a node answers must not depend on what it validated before (claims), and every answer is judged
    let b0 = d.cur;
    d.seal_next(Some(true));
    let b1 = d.cur;
    d.seal_next(Some(false));
    let b2 = d.cur;
    for (ki, (name, _, _, data)) in ks.iter().enumerate() {
        let cs: Vec<(CoinID, CoinDataHeight)> = made.iter().filter(|m| m.0 == ki).map(|m| (m.1, m.2.clone())).collect();
        if cs.len() < 2 {
            continue;
        }
        let (c1, c2) = (cs[0].clone(), cs[1].clone());
        let (p1, p2) = (payers[ki % payers.len()].clone(), payers[(ki + 1) % payers.len()].clone());
        let shapes: Vec<(&str, Vec<(CoinID, CoinDataHeight)>)> = vec![
            ("first coin alone", vec![c1.clone()]),
            ("second coin alone", vec![c2.clone()]),
            ("after an always-true input", vec![p1.clone(), c1.clone()]),
            ("before an always-true input", vec![c2.clone(), p1.clone()]),
            ("both, first then second", vec![c1.clone(), c2.clone()]),
            ("both, second then first", vec![c2.clone(), c1.clone()]),
            ("both around an always-true input", vec![c1.clone(), p2.clone(), c2.clone()]),
            ("both after an always-true input", vec![p2.clone(), c2.clone(), c1.clone()]),
        ];
        for (si, (sname, ins)) in shapes.into_iter().enumerate() {
            d.cur = b0;
            if let Some(tx) = d.build(TxKind::Normal, &ins, vec![], 1, data.clone(), 20_000) {
                for (pi, (base, bn)) in [(b2, 2), (b0, 0), (b1, 1), (b2, 2)].into_iter().enumerate() {
                    let _ = d.w.batch(base, &[tx.clone()], 0, json!({"why": format!("gallery: {}: {}: state {} (presentation {})", name, sname, bn, pi),
                                                                      "agreeRes": format!("C03res|{}|{}|{}|b{}", tag, ki, si, bn)}));
                }
            }
        }
    }
    d.cur = b2;
    collision_scenario(&mut d, false, 150);
    collision_scenario(&mut d, true, 160);
    d.seal_next(Some(true));
}

//! Counting global allocator: deterministic memory-work counters for the C11 cost model.
use std::alloc::{GlobalAlloc, Layout, System};
use std::sync::atomic::{AtomicU64, Ordering};

pub struct Counting;
pub static TOTAL: AtomicU64 = AtomicU64::new(0);
pub static CURRENT: AtomicU64 = AtomicU64::new(0);
pub static PEAK: AtomicU64 = AtomicU64::new(0);

unsafe impl GlobalAlloc for Counting {
    unsafe fn alloc(&self, l: Layout) -> *mut u8 {
        let s = l.size() as u64;
        TOTAL.fetch_add(s, Ordering::Relaxed);
        let c = CURRENT.fetch_add(s, Ordering::Relaxed) + s;
        PEAK.fetch_max(c, Ordering::Relaxed);
        System.alloc(l)
    }
    unsafe fn dealloc(&self, p: *mut u8, l: Layout) {
        CURRENT.fetch_sub(l.size() as u64, Ordering::Relaxed);
        System.dealloc(p, l)
    }
}

/// (total bytes allocated, peak above the starting level) while running f
pub fn measure<T>(f: impl FnOnce() -> T) -> (T, u64, u64) {
    let t0 = TOTAL.load(Ordering::Relaxed);
    let c0 = CURRENT.load(Ordering::Relaxed);
    PEAK.store(c0, Ordering::Relaxed);
    let r = f();
    let t1 = TOTAL.load(Ordering::Relaxed);
    let p = PEAK.load(Ordering::Relaxed);
    (r, t1 - t0, p.saturating_sub(c0))
}

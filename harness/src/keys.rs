//! Deterministic Ed25519 keys for reproducible workloads (tmelcrypt only offers OS randomness).
use tmelcrypt::{Ed25519PK, Ed25519SK};

pub fn from_seed(seed: &[u8; 32]) -> (Ed25519PK, Ed25519SK) {
    let key = ed25519_consensus::SigningKey::from(*seed);
    let pk = ed25519_consensus::VerificationKey::from(&key).to_bytes();
    let mut v = Vec::with_capacity(64);
    v.extend_from_slice(seed);
    v.extend_from_slice(&pk);
    let sk = Ed25519SK::from_bytes(&v).unwrap();
    (sk.to_public(), sk)
}

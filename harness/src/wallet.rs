//! Workload construction helpers: keys, covenant families, transaction building and signing.
//! Nothing here is an oracle: transactions are just inputs; the specification decides what should happen to them.
use ethnum::U256;
use melstructs::*;
use melvm::{opcode::OpCode, Covenant};
use rand::{rngs::StdRng, Rng};
use std::collections::HashMap;
use tmelcrypt::{Ed25519PK, Ed25519SK};

#[derive(Clone, Debug)]
pub enum CovKind {
    Legacy(usize),
    New(usize),
    True,
    False,
    /// true iff spent as input number 0
    Idx0,
    /// true iff hash(tx.data) == stored constant (preimage kept)
    HashLock(Vec<u8>),
    /// true iff the previous block's height >= h
    TimeLock(u64),
    /// true iff the previous block's height < h (an expiry: goes from true to false as the chain grows)
    Expiry(u64),
    /// true iff the coin's own value >= v (reads the parent value slot)
    ValueBound(u128),
    /// true iff parent denom is MEL ("m")
    DenomMel,
    /// signature by key k at slot spender_index, AND additional data of the coin equals tx.data
    DataBound(usize),
    /// true iff the environment's parent coin id equals the input at the spender index (heap 2, 3 against heap 0)
    EnvConsistent,
    /// true iff the hash of the spender's first covenant equals the self-hash slot (heap 4) and the creation height (heap 8) is below h
    SelfHashAndHeightBelow(u64),
    /// a randomly generated program (bytes given)
    Random(Vec<u8>),
    /// undecodable bytes
    Garbage,
    /// returns a byte string (truthy) / empty vector
    ReturnsBytes,
}

pub struct Wallet {
    pub keys: Vec<(Ed25519PK, Ed25519SK)>,
    pub reg: HashMap<Address, (Vec<u8>, CovKind)>,
    /// only signature covenants and always-true for new outputs (workloads that are about something else)
    pub simple: bool,
}

pub fn cov_bytes(kind: &CovKind, keys: &[(Ed25519PK, Ed25519SK)]) -> Vec<u8> {
    use OpCode::*;
    let i = |x: u64| PushIC(U256::from(x));
    match kind {
        CovKind::Legacy(k) => Covenant::std_ed25519_pk_legacy(keys[*k].0).to_bytes().to_vec(),
        CovKind::New(k) => Covenant::std_ed25519_pk_new(keys[*k].0).to_bytes().to_vec(),
        CovKind::True => Covenant::always_true().to_bytes().to_vec(),
        CovKind::False => Covenant::from_ops(&[i(0)]).to_bytes().to_vec(),
        CovKind::Idx0 => Covenant::from_ops(&[LoadImm(9), i(0), Eql]).to_bytes().to_vec(),
        CovKind::HashLock(pre) => {
            let h = tmelcrypt::hash_single(pre).0.to_vec();
            // tx.data is field 5 of the spender tx (heap 0); compare hash as integers
            Covenant::from_ops(&[PushB(h), BtoI, i(5), LoadImm(0), VRef, Hash(64), BtoI, Eql]).to_bytes().to_vec()
        }
        CovKind::TimeLock(h) => {
            // last header (heap 10) field 2 = height ; true iff height >= h  <=>  not (height < h)
            // Lt pops x=top, y=second, pushes x<y.  push h, then height on top: height < h
            Covenant::from_ops(&[i(*h), i(2), LoadImm(10), VRef, Lt, Not, i(1), And]).to_bytes().to_vec()
        }
        CovKind::Expiry(h) => Covenant::from_ops(&[i(*h), i(2), LoadImm(10), VRef, Lt]).to_bytes().to_vec(),
        CovKind::ValueBound(v) => {
            // value < v ? 0 : 1
            Covenant::from_ops(&[PushI(U256::from(*v)), LoadImm(5), Lt, Bez(2), i(0), Jmp(1), i(1)]).to_bytes().to_vec()
        }
        CovKind::DenomMel => {
            // parent denom bytes (heap 6) has length 1 and first byte 'm'
            Covenant::from_ops(&[i(109), i(0), LoadImm(6), BRef, Eql]).to_bytes().to_vec()
        }
        CovKind::DataBound(k) => {
            let mut ops = Covenant::std_ed25519_pk_new(keys[*k].0).to_ops();
            // AND (hash(parent additional data) == hash(tx.data))
            ops.extend([LoadImm(7), Hash(1000), BtoI, i(5), LoadImm(0), VRef, Hash(1000), BtoI, Eql, And]);
            Covenant::from_ops(&ops).to_bytes().to_vec()
        }
        CovKind::EnvConsistent => {
            // inputs = tx[1]; me = inputs[spender_index]; me[0] == heap2 (as integers) and me[1] == heap3
            Covenant::from_ops(&[
                LoadImm(2), BtoI,                                   // parent txhash
                i(0), LoadImm(9), i(1), LoadImm(0), VRef, VRef, VRef, BtoI, // tx.inputs[sidx][0]
                Eql,
                LoadImm(3),                                         // parent index
                i(1), LoadImm(9), i(1), LoadImm(0), VRef, VRef, VRef,       // tx.inputs[sidx][1]
                Eql,
                And,
            ]).to_bytes().to_vec()
        }
        CovKind::SelfHashAndHeightBelow(h) => {
            Covenant::from_ops(&[
                LoadImm(4), BtoI,
                i(0), i(4), LoadImm(0), VRef, VRef, Hash(5000), BtoI,   // hash(tx.covenants[0])
                Eql,
                i(*h), LoadImm(8), Lt,                                   // height < h  (Lt pops x = top = height, y = h: x < y)
                And,
            ]).to_bytes().to_vec()
        }
        CovKind::Random(b) => b.clone(),
        CovKind::Garbage => vec![0xf0, 0x05, 0x01],
        CovKind::ReturnsBytes => Covenant::from_ops(&[BEmpty]).to_bytes().to_vec(),
    }
}

impl Wallet {
    pub fn new(nkeys: usize, r: &mut StdRng) -> Self {
        let mut keys = vec![];
        for _ in 0..nkeys {
            let mut seed = [0u8; 32];
            r.fill(&mut seed);
            // deterministic keys from the seeded rng
            keys.push(crate::keys::from_seed(&seed));
        }
        Wallet { keys, reg: HashMap::new(), simple: false }
    }

    pub fn address(&mut self, kind: CovKind) -> Address {
        let b = cov_bytes(&kind, &self.keys);
        let a = Address(tmelcrypt::hash_single(&b));
        self.reg.insert(a, (b, kind));
        a
    }

    pub fn random_address(&mut self, r: &mut StdRng) -> Address {
        let nk = self.keys.len();
        let kind = match if self.simple { r.gen_range(0..30) } else { r.gen_range(0..48) } {
            0..=11 => CovKind::Legacy(r.gen_range(0..nk)),
            12..=23 => CovKind::New(r.gen_range(0..nk)),
            24..=29 => CovKind::True,
            30 => CovKind::False,
            31..=32 => CovKind::Idx0,
            33 => CovKind::HashLock(vec![1, 2, 3]),
            34 => CovKind::TimeLock(r.gen_range(0..6)),
            35 => CovKind::ValueBound(r.gen_range(0..2000)),
            36 => CovKind::DenomMel,
            37 => CovKind::DataBound(r.gen_range(0..nk)),
            38 => CovKind::Garbage,
            39 => CovKind::ReturnsBytes,
            40 | 41 => CovKind::EnvConsistent,
            42 | 43 => CovKind::SelfHashAndHeightBelow(r.gen_range(1..12)),
            _ => {
                // randomly generated covenant: a type-aware random program, biased to end with something on the stack
                let mut ops = crate::vm::gen_typed(r);
                if r.gen_bool(0.5) {
                    ops.push(melvm::opcode::OpCode::PushIC(U256::from(r.gen_range(0u32..2))));
                }
                CovKind::Random(Covenant::from_ops(&ops).to_bytes().to_vec())
            }
        };
        self.address(kind)
    }

    /// Adds covenants and signatures so that the inputs (whose coin data are given) are authorised where possible.
    pub fn authorise(&self, tx: &mut Transaction, input_data: &[Option<CoinData>]) {
        tx.covenants.clear();
        tx.sigs.clear();
        let mut need: Vec<(usize, usize)> = vec![]; // (slot, key)
        for (i, cd) in input_data.iter().enumerate() {
            if let Some(cd) = cd {
                if let Some((bytes, kind)) = self.reg.get(&cd.covhash) {
                    if !tx.covenants.iter().any(|c| c[..] == bytes[..]) {
                        tx.covenants.push(bytes.clone().into());
                    }
                    match kind {
                        CovKind::Legacy(k) => need.push((0, *k)),
                        CovKind::New(k) | CovKind::DataBound(k) => need.push((i, *k)),
                        _ => {}
                    }
                }
            }
        }
        let h = tx.hash_nosigs();
        let nslots = need.iter().map(|x| x.0 + 1).max().unwrap_or(0);
        tx.sigs = vec![bytes::Bytes::new(); nslots];
        // legacy first so that a new-style covenant at slot 0 wins the conflict last
        for (slot, k) in need.iter() {
            tx.sigs[*slot] = self.keys[*k].1.sign(&h.0).into();
        }
    }
}

pub fn mk_coin(cov: Address, value: u128, denom: Denom, data: &[u8]) -> CoinData {
    CoinData { covhash: cov, value: CoinValue(value), denom, additional_data: data.to_vec().into() }
}

/// minimum fee of `tx` at multiplier m as the transaction format defines it (workload construction only)
/// workload construction only (the specification computes its own minimum fee).  A panic of the weigher here must not take the
/// driver down: the transaction is then submitted with fee 0 and the same panic is observed, as data, inside the recorded call.
pub fn min_fee(tx: &Transaction, m: u128) -> u128 {
    std::panic::catch_unwind(std::panic::AssertUnwindSafe(|| tx.base_fee(m, 0, |c| melvm::covenant_weight_from_bytes(c)).0)).unwrap_or(0)
}

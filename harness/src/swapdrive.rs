//! Melswap workloads: swap / deposit / withdraw requests with every spelling of the pool name.
use crate::drive::Driver;
use crate::lj;
use crate::wallet::{mk_coin, CovKind};
use melstructs::*;
use rand::{seq::SliceRandom, Rng};
use serde_json::json;

pub fn spelling(k: &PoolKey, which: u32) -> (Vec<u8>, &'static str) {
    let long = |l: Denom, r: Denom| {
        let mut v = vec![0u8; 32];
        v.extend_from_slice(&stdcode::serialize(&(l, r)).unwrap());
        v
    };
    match which {
        0..=5 => (k.to_bytes().to_vec(), "canonical"),
        6 => (long(k.left(), k.right()), "long"),
        7 => (long(k.right(), k.left()), "long-reversed"),
        8 => (long(k.left(), k.left()), "long-equal-sides"),
        9 => (long(Denom::NewCustom, k.right()), "long-newcustom"),
        10 => (vec![], "empty"),
        11 => (vec![0u8; 33], "33-zero-bytes"),
        12 => (b"x".to_vec(), "non-key"),
        _ => (k.to_bytes().to_vec(), "canonical"),
    }
}

pub fn mel_fee_coin(d: &Driver, exclude: &[CoinID]) -> Option<(CoinID, CoinDataHeight)> {
    let mut v: Vec<_> = d.spendable().into_iter().filter(|(c, x)| x.coin_data.denom == Denom::Mel && x.coin_data.value.0 > 2_000_000 && !exclude.contains(c)).collect();
    v.sort_by_key(|(_, x)| x.coin_data.value.0);
    v.into_iter().next()
}

pub fn known_pools(d: &Driver) -> Vec<(PoolKey, PoolState)> {
    lj::pools_typed(&d.view(), &d.w.names)
}

fn pick(d: &mut Driver, denom: Denom, exclude: &[CoinID]) -> Option<(CoinID, CoinDataHeight)> {
    let c: Vec<_> = d.spendable().into_iter().filter(|(c, x)| x.coin_data.denom == denom && x.coin_data.value.0 > 0 && !exclude.contains(c)).collect();
    c.choose(&mut d.r).cloned()
}

pub fn swap_tx(d: &mut Driver, key: PoolKey, side_left: bool, frac: u32, spell: u32, kind: TxKind, exclude: &[CoinID]) -> Option<(Transaction, String)> {
    let denom = if side_left { key.left() } else { key.right() };
    let coin = pick(d, denom, exclude)?;
    let mut ins = vec![coin.clone()];
    if denom != Denom::Mel {
        let mut ex = exclude.to_vec();
        ex.push(coin.0);
        ins.push(mel_fee_coin(d, &ex)?);
    }
    let amount = match frac {
        0 => 0,
        1 => 1,
        2 => coin.1.coin_data.value.0 / 1000 + 1,
        3 => coin.1.coin_data.value.0 / 10 + 1,
        _ => coin.1.coin_data.value.0 / 2,
    };
    let amount = if denom == Denom::Mel { amount.min(coin.1.coin_data.value.0 / 2) } else { amount.min(coin.1.coin_data.value.0) };
    let a = d.wal.random_address(&mut d.r);
    let (data, sname) = spelling(&key, spell);
    let t = d.build(kind, &ins, vec![mk_coin(a, amount, denom, &[5])], 1, data, 0)?;
    Some((t, format!("swap {}->{} amount {} spelling {} kind {:?}", if side_left { "L" } else { "R" }, if side_left { "R" } else { "L" }, amount, sname, kind)))
}

pub fn deposit_tx(d: &mut Driver, key: PoolKey, fl: u32, fr: u32, spell: u32, exclude: &[CoinID]) -> Option<(Transaction, String)> {
    let cl = pick(d, key.left(), exclude)?;
    let mut ex = exclude.to_vec();
    ex.push(cl.0);
    let cr = pick(d, key.right(), &ex)?;
    ex.push(cr.0);
    let mut ins = vec![cl.clone(), cr.clone()];
    if key.left() != Denom::Mel && key.right() != Denom::Mel {
        ins.push(mel_fee_coin(d, &ex)?);
    }
    let amt = |v: u128, f: u32| match f {
        0 => 0,
        1 => 1,
        2 => 4,
        3 => v / 1000 + 1,
        5 => v / 1000 + 1,
        _ => v / 4,
    }.min(if v > 1 { v / 2 } else { v });
    let a = d.wal.random_address(&mut d.r);
    let (data, sname) = spelling(&key, spell);
    let al = amt(cl.1.coin_data.value.0, fl);
    let ar = amt(cr.1.coin_data.value.0, fr);
    let t = d.build(TxKind::LiqDeposit, &ins, vec![mk_coin(a, al, key.left(), &[]), mk_coin(a, ar, key.right(), &[])], 1, data, 0)?;
    Some((t, format!("deposit ({}, {}) spelling {}", al, ar, sname)))
}

pub fn withdraw_tx(d: &mut Driver, key: PoolKey, all: bool, spell: u32, exclude: &[CoinID]) -> Option<(Transaction, String)> {
    let liq = key.liq_token_denom();
    let c = pick(d, liq, exclude)?;
    let mut ex = exclude.to_vec();
    ex.push(c.0);
    let fee = mel_fee_coin(d, &ex)?;
    let q = if all { c.1.coin_data.value.0 } else { c.1.coin_data.value.0 / 3 + 1 };
    let a = d.wal.random_address(&mut d.r);
    let (data, sname) = spelling(&key, spell);
    // exactly one output: the MEL input goes to the fee entirely, the unredeemed liquidity tokens are burnt with it if q < holdings
    let mut ins = vec![c.clone(), fee];
    if q < c.1.coin_data.value.0 {
        // split first so that the withdrawal has a single output: pay change in an earlier transaction
        let a2 = d.wal.random_address(&mut d.r);
        ex.push(ins[1].0);
        let fee2 = mel_fee_coin(d, &ex)?;
        let split = d.build(TxKind::Normal, &[c.clone(), fee2], vec![mk_coin(a2, q, liq, &[])], 1, vec![], 0)?;
        if !d.apply(&[split.clone()], 0, json!({"why": "split-liq-tokens"})) {
            return None;
        }
        let h = d.view().height;
        ins = vec![(CoinID::new(split.hash_nosigs(), 0), CoinDataHeight { coin_data: split.outputs[0].clone(), height: h }), ins[1].clone()];
    }
    // spelling 13: the canonical name, but with a change output (two outputs: not a withdrawal request, nothing is redeemed)
    let t = d.build(TxKind::LiqWithdraw, &ins, vec![mk_coin(a, q, liq, &[])], if spell == 13 { 1 } else { 0 }, data, 0)?;
    Some((t, format!("withdraw {} all={} spelling {}{}", q, all, sname, if spell == 13 { " with a change output" } else { "" })))
}

/// a custom token and a brand-new pool MEL/token
pub fn new_token(d: &mut Driver) -> Option<Denom> {
    let fee = mel_fee_coin(d, &[])?;
    let a = d.wal.address(CovKind::New(0));
    let amount = d.r.gen_range(1000..1_000_000_000);
    let t = d.build(TxKind::Normal, &[fee], vec![mk_coin(a, amount, Denom::NewCustom, &[])], 1, vec![], 0)?;
    if d.apply(&[t.clone()], 0, json!({"why": "issue-custom-token"})) {
        Some(Denom::Custom(t.hash_nosigs()))
    } else {
        None
    }
}

pub fn pool_step(d: &mut Driver) {
    let pools = known_pools(d);
    if pools.is_empty() {
        return;
    }
    let mut batch: Vec<Transaction> = vec![];
    let mut why: Vec<String> = vec![];
    let nreq = d.r.gen_range(1..=4);
    // maybe a brand-new pool
    let mut target: Option<PoolKey> = None;
    if d.r.gen_bool(0.25) {
        let customs: Vec<Denom> = d.spendable().iter().map(|(_, x)| x.coin_data.denom).filter(|x| matches!(x, Denom::Custom(_))).collect();
        let liqs: Vec<Denom> = pools.iter().map(|(k, _)| k.liq_token_denom()).collect();
        let tok = customs.into_iter().find(|c| !liqs.contains(c)).or_else(|| new_token(d));
        if let Some(tok) = tok {
            let other = [Denom::Mel, Denom::Sym][d.r.gen_range(0..2)];
            target = Some(PoolKey::new(other, tok));
        }
    }
    for _ in 0..nreq {
        let key = target.unwrap_or_else(|| pools.choose(&mut d.r).unwrap().0);
        let spell = d.r.gen_range(0..14);
        let used: Vec<CoinID> = batch.iter().flat_map(|t| t.inputs.clone()).collect();
        let req = match d.r.gen_range(0..10) {
            0..=4 => {
                let kind = if d.r.gen_bool(0.85) { TxKind::Swap } else { [TxKind::Normal, TxKind::LiqDeposit, TxKind::LiqWithdraw, TxKind::Stake][d.r.gen_range(0..4)] };
                { let (s1, f1) = (d.r.gen(), d.r.gen_range(0..5)); swap_tx(d, key, s1, f1, spell, kind, &used) }
            }
            5..=7 => { let (f1, f2) = (d.r.gen_range(0..5), d.r.gen_range(0..5)); deposit_tx(d, key, f1, f2, spell, &used) }
            _ => { let all = d.r.gen_bool(0.5); withdraw_tx(d, key, all, spell, &used) }
        };
        if let Some((t, w)) = req {
            if t.inputs.iter().any(|c| used.contains(c)) {
                continue;
            }
            // inputs may have been consumed by a helper transaction meanwhile
            let live: Vec<CoinID> = d.coins().into_iter().map(|x| x.0).collect();
            if !t.inputs.iter().all(|c| live.contains(c)) {
                continue;
            }
            batch.push(t);
            why.push(w);
        }
    }
    if !batch.is_empty() {
        d.apply(&batch, 0, json!({"why": why}));
    }
}


/// Pool-heavy history: many holders, many requests per pool and block on both sides, amounts over many magnitudes,
/// plus directed situations (equal simultaneous deposits, withdraw everything, swaps on an emptied pool, drain attempts).

/// Directed pool histories every swap job runs first: (1) a lopsided custom pool (1000 : 10), a swap on the scarce side, then the
/// redemption of ONE liquidity token - which pays out zero on both sides - and of all the rest; (2) two large deposits (about 2^80 per
/// side, with weights that share no small factor) into a fresh pool of two faucet tokens in ONE block, then both depositors redeem.
pub fn lopsided_and_joint(d: &mut Driver, salt: u8) {
    if d.net == NetID::Mainnet {
        return;
    }
    let ta = Denom::Custom(TxHash(tmelcrypt::hash_single(&[b'a', salt])));
    let tb = Denom::Custom(TxHash(tmelcrypt::hash_single(&[b'b', salt])));
    let a = d.wal.address(CovKind::New(2));
    let x1: u128 = ((1u128 << 40) + 1) * ((1u128 << 40) + 1);
    let x2: u128 = 1u128 << 80;
    let mut outs = vec![mk_coin(a, 2000, ta, &[]), mk_coin(a, 2000, ta, &[]), mk_coin(a, x1, ta, &[]), mk_coin(a, x1, tb, &[]), mk_coin(a, x2, ta, &[]), mk_coin(a, x2, tb, &[])];
    for j in 0..12u128 {
        outs.push(mk_coin(a, 50_000_000 + j, Denom::Mel, &[]));
    }
    outs.push(mk_coin(a, 5000, Denom::Sym, &[]));   // 18
    let f = d.faucet(outs, 0, salt);
    if !d.apply(&[f.clone()], 0, json!({"why": "holders of two faucet tokens"})) {
        return;
    }
    let h = d.view().height;
    let coin = |j: usize| (CoinID::new(f.hash_nosigs(), j as u8), CoinDataHeight { coin_data: f.outputs[j].clone(), height: h });
    let to = d.wal.address(CovKind::New(1));
    let amt = |den: Denom, v: u128| mk_coin(to, v, den, &[]);
    // (1) lopsided pool
    let k = PoolKey::new(Denom::Mel, ta);
    let (kl, kr) = (k.left(), k.right());
    let liq = k.liq_token_denom();
    let dep = d.build(TxKind::LiqDeposit, &[coin(0), coin(6)], vec![amt(kl, 1000), amt(kr, 10)], 1, k.to_bytes().to_vec(), 0);
    if let Some(dep) = dep {
        d.apply(&[dep.clone()], 0, json!({"why": "lopsided pool 1000 : 10"}));
        d.seal_next(Some(true));
        if let Some(t) = d.build(TxKind::Swap, &[coin(1), coin(7)], vec![amt(kr, 10)], 1, k.to_bytes().to_vec(), 0) {
            d.apply(&[t], 0, json!({"why": "swap of 10 on the scarce side"}));
        }
        d.seal_next(Some(false));
        let held: Vec<_> = d.coins().into_iter().filter(|(c, x)| c.txhash == dep.hash_nosigs() && c.index == 0 && x.coin_data.denom == liq).collect();
        if let Some(lc) = held.first().cloned() {
            if let Some(split) = d.build(TxKind::Normal, &[lc.clone(), coin(8)], vec![amt(liq, 1)], 1, vec![], 0) {
                if d.apply(&[split.clone()], 0, json!({"why": "split one liquidity token off"})) {
                    let hh = d.view().height;
                    let one = (CoinID::new(split.hash_nosigs(), 0), CoinDataHeight { coin_data: split.outputs[0].clone(), height: hh });
                    if let Some(w) = d.build(TxKind::LiqWithdraw, &[one, coin(9)], vec![amt(liq, 1)], 0, k.to_bytes().to_vec(), 0) {
                        d.apply(&[w], 0, json!({"why": "redeem ONE liquidity token of a lopsided pool (pays zero on both sides)"}));
                    }
                    d.seal_next(Some(true));
                    let rest: Vec<_> = d.spendable().into_iter().filter(|(_, x)| x.coin_data.denom == liq && x.coin_data.value.0 > 1).collect();
                    if let Some(rc) = rest.first().cloned() {
                        if let Some(w) = d.build(TxKind::LiqWithdraw, &[rc.clone(), coin(10)], vec![amt(liq, rc.1.coin_data.value.0)], 0, k.to_bytes().to_vec(), 0) {
                            d.apply(&[w], 0, json!({"why": "redeem all remaining liquidity tokens of the lopsided pool"}));
                        }
                        d.seal_next(Some(false));
                    }
                }
            }
        }
    }
    // requests whose outputs are sent to the destruction address never become coins: they are no requests
    {
        let ms = PoolKey::new(Denom::Mel, Denom::Sym);
        let burn = |den: Denom, v: u128| mk_coin(Address::coin_destroy(), v, den, &[]);
        let mut batch = vec![];
        if let Some(t) = d.build(TxKind::Swap, &[coin(14)], vec![burn(Denom::Mel, 1000)], 1, ms.to_bytes().to_vec(), 0) {
            batch.push(t);
        }
        if let Some(t) = d.build(TxKind::LiqDeposit, &[coin(15), coin(18)], vec![amt(ms.left(), 1000), burn(ms.right(), 1000)], 1, ms.to_bytes().to_vec(), 0) {
            batch.push(t);
        }
        if let Some(t) = d.build(TxKind::LiqDeposit, &[coin(16)], vec![burn(Denom::Mel, 700), burn(Denom::Mel, 700)], 1, PoolKey::new(Denom::Mel, ta).to_bytes().to_vec(), 0) {
            batch.push(t);
        }
        d.apply(&batch, 0, json!({"why": "a swap and two deposits whose (first / second / both) outputs go to the destruction address"}));
        d.seal_next(Some(true));
    }
    // (2) two large deposits into a fresh pool in one block
    let k2 = PoolKey::new(ta, tb);
    let (l2, r2) = (k2.left(), k2.right());
    let pick = |den: Denom, first: bool| -> usize { if den == ta { if first { 2 } else { 4 } } else if first { 3 } else { 5 } };
    let mut batch = vec![];
    for (first, x, feec) in [(true, x1, 11usize), (false, x2, 12usize)] {
        if let Some(t) = d.build(TxKind::LiqDeposit, &[coin(pick(l2, first)), coin(pick(r2, first)), coin(feec)], vec![amt(l2, x), amt(r2, x)], 1, k2.to_bytes().to_vec(), 0) {
            batch.push(t);
        }
    }
    if batch.len() == 2 && d.apply(&batch, 0, json!({"why": "two deposits of (2^40+1)^2 and 2^80 per side into a fresh pool in one block"})) {
        d.seal_next(Some(true));
        let liq2 = k2.liq_token_denom();
        for feec in [13usize] {
            let held: Vec<_> = d.spendable().into_iter().filter(|(_, x)| x.coin_data.denom == liq2).collect();
            if let Some(rc) = held.first().cloned() {
                if let Some(w) = d.build(TxKind::LiqWithdraw, &[rc.clone(), coin(feec)], vec![amt(liq2, rc.1.coin_data.value.0)], 0, k2.to_bytes().to_vec(), 0) {
                    d.apply(&[w], 0, json!({"why": "one of the two large depositors redeems"}));
                }
                d.seal_next(Some(true));
            }
        }
    }
}

/// (run last: the coins it leaves behind make every later event's projection large)
pub fn many_swaps(d: &mut Driver) {
        // 270 swap requests against one pool in one block (140 + 130): nothing in settlement may work in windows of 128 / 256 requests
        {
            let a = d.wal.address(CovKind::True);
            let mut coins: Vec<(CoinID, CoinDataHeight)> = vec![];
            for (salt, den) in [(70u8, Denom::Mel), (71u8, Denom::Sym)] {
                let mut outs = vec![];
                for j in 0..(if den == Denom::Mel { 140u128 } else { 130u128 }) {
                    outs.push(mk_coin(a, 40_000_000 + j, den, &[]));
                }
                if den != Denom::Mel {
                    for j in 0..120u128 {
                        outs.push(mk_coin(a, 30_000_000 + j, Denom::Mel, &[]));
                    }
                }
                let f = d.faucet(outs, 0, salt);
                if d.apply(&[f.clone()], 0, json!({"why": "holders for a block of 260 swaps"})) {
                    let h = d.view().height;
                    for (j, o) in f.outputs.iter().enumerate() {
                        coins.push((CoinID::new(f.hash_nosigs(), j as u8), CoinDataHeight { coin_data: o.clone(), height: h }));
                    }
                }
            }
            let k = PoolKey::new(Denom::Mel, Denom::Sym);
            let mels: Vec<_> = coins.iter().filter(|c| c.1.coin_data.denom == Denom::Mel && c.1.coin_data.value.0 >= 40_000_000).cloned().collect();
            let syms: Vec<_> = coins.iter().filter(|c| c.1.coin_data.denom == Denom::Sym).cloned().collect();
            let fees: Vec<_> = coins.iter().filter(|c| c.1.coin_data.denom == Denom::Mel && c.1.coin_data.value.0 < 40_000_000).cloned().collect();
            let mut batch = vec![];
            for (j, c) in mels.iter().enumerate() {
                let to = d.wal.address(CovKind::New(j % 4));
                if let Some(t) = d.build(TxKind::Swap, &[c.clone()], vec![mk_coin(to, 1_000_000 + 7 * j as u128, Denom::Mel, &[])], 1, k.to_bytes().to_vec(), 0) {
                    batch.push(t);
                }
            }
            for (j, c) in syms.iter().enumerate() {
                let to = d.wal.address(CovKind::New(j % 4));
                let fee = fees[j % fees.len().max(1)].clone();
                if j < fees.len() {
                    if let Some(t) = d.build(TxKind::Swap, &[c.clone(), fee], vec![mk_coin(to, 2_000_000 + 11 * j as u128, Denom::Sym, &[])], 1, k.to_bytes().to_vec(), 0) {
                        batch.push(t);
                    }
                }
            }
            d.apply(&batch, 0, json!({"why": format!("{} swap requests against MEL/SYM in one block", batch.len())}));
            d.seal_next(Some(true));
        }
}

pub fn swap_history(out: &mut crate::Out, tag: &str, seed: u64, net: NetID, blocks: usize, big: bool, forged: bool) {
    use std::collections::BTreeMap;
    let mut d = Driver::new(out, tag, seed, net, 300, Denom::Mel, 1u128 << 70, 1 << 30, BTreeMap::new());
    d.wal.simple = true;
    d.seal_next(Some(false));
    // holders
    let unit: u128 = if big { 1u128 << 96 } else { 50_000_000_000 };
    let mut outs = vec![];
    for i in 0..10 {
        let a = d.wal.address(CovKind::New(i % 4));
        outs.push(mk_coin(a, unit + i as u128 * 1_000_003, Denom::Mel, &[]));
        outs.push(mk_coin(a, 40_000_000, Denom::Mel, &[]));
        outs.push(mk_coin(a, 45_000_000, Denom::Mel, &[]));
        if i < 6 {
            outs.push(mk_coin(a, unit / 3 + i as u128, Denom::Sym, &[]));
            outs.push(mk_coin(a, unit / 5 + 7 * i as u128, Denom::Erg, &[]));
        }
    }
    let f = d.faucet(outs, 0, 9);
    d.apply(&[f], 0, json!({"why": "holders"}));
    d.seal_next(Some(true));
    // directed: a brand-new pool with two equal deposits in one block
    if let Some(tok) = new_token(&mut d) {
        // split the token into 4 coins
        let holder: Vec<_> = d.spendable().into_iter().filter(|(_, x)| x.coin_data.denom == tok).collect();
        if let (Some(t), Some(fee)) = (holder.first().cloned(), mel_fee_coin(&d, &[])) {
            let a = d.wal.address(CovKind::New(1));
            let v = t.1.coin_data.value.0;
            let q = (v / 8).max(1);
            let fixed = vec![mk_coin(a, 4, tok, &[]), mk_coin(a, 4, tok, &[]), mk_coin(a, q, tok, &[]), mk_coin(a, q, tok, &[])];
            if let Some(sp) = d.build(TxKind::Normal, &[t, fee], fixed, 1, vec![], 0) {
                d.apply(&[sp], 0, json!({"why": "split-token"}));
            }
        }
        let key = PoolKey::new(Denom::Mel, tok);
        let mut batch = vec![];
        let mut used: Vec<CoinID> = vec![];
        for _ in 0..2 {
            // (4, 4) deposits: choose the 4-valued token coins and small MEL coins
            let tokc: Vec<_> = d.spendable().into_iter().filter(|(c, x)| x.coin_data.denom == tok && x.coin_data.value.0 == 4 && !used.contains(c)).collect();
            let melc = mel_fee_coin(&d, &used);
            if let (Some(tc), Some(mc)) = (tokc.first().cloned(), melc) {
                let a = d.wal.address(CovKind::New(2));
                let (l, r) = if key.left() == Denom::Mel { (mc.clone(), tc.clone()) } else { (tc.clone(), mc.clone()) };
                let fixed = vec![mk_coin(a, 4, key.left(), &[]), mk_coin(a, 4, key.right(), &[])];
                if let Some(t) = d.build(TxKind::LiqDeposit, &[l, r], fixed, 1, key.to_bytes().to_vec(), 0) {
                    used.extend(t.inputs.iter().copied());
                    batch.push(t);
                }
            }
        }
        if batch.len() == 2 {
            d.apply(&batch, 0, json!({"why": "two equal deposits (4,4) into a new pool"}));
        }
        d.seal_next(Some(true));
        // deposits whose pro-rata shares are not whole numbers, into the same (fully held) pool: (9,4) and (1,1), then (7,3), (2,5), (1,1)
        for set in [vec![(9u128, 4u128), (1, 1)], vec![(7, 3), (2, 5), (1, 1)]] {
            let mut batch = vec![];
            let mut used: Vec<CoinID> = vec![];
            for (x, y) in set {
                let tokc: Vec<_> = d.spendable().into_iter().filter(|(c, z)| z.coin_data.denom == tok && z.coin_data.value.0 >= 20 && !used.contains(c)).collect();
                let melc = mel_fee_coin(&d, &used);
                if let (Some(tc), Some(mc)) = (tokc.first().cloned(), melc) {
                    let a = d.wal.address(CovKind::New(3));
                    let (l, r, lv, rv) = if key.left() == Denom::Mel { (mc.clone(), tc.clone(), x, y) } else { (tc.clone(), mc.clone(), y, x) };
                    let fixed = vec![mk_coin(a, lv, key.left(), &[]), mk_coin(a, rv, key.right(), &[])];
                    if let Some(t) = d.build(TxKind::LiqDeposit, &[l, r], fixed, 2, key.to_bytes().to_vec(), 0) {
                        used.extend(t.inputs.iter().copied());
                        batch.push(t);
                    }
                }
            }
            if batch.len() >= 2 {
                d.apply(&batch, 0, json!({"why": "deposits with fractional shares into a fully held pool"}));
            }
            d.seal_next(None);
        }
        d.seal_next(Some(true));
        // both withdraw everything in one block
        let mut batch = vec![];
        let mut used: Vec<CoinID> = vec![];
        for _ in 0..2 {
            if let Some((t, _)) = withdraw_tx(&mut d, key, true, 0, &used) {
                used.extend(t.inputs.iter().copied());
                batch.push(t);
            }
        }
        if !batch.is_empty() {
            d.apply(&batch, 0, json!({"why": "withdraw everything"}));
        }
        d.seal_next(None);
        // swap against the emptied pool
        if let Some((t, w)) = swap_tx(&mut d, key, key.left() == Denom::Mel, 2, 0, TxKind::Swap, &[]) {
            d.apply(&[t], 0, json!({"why": format!("swap on emptied pool: {}", w)}));
        }
        d.seal_next(Some(true));
    }
    // requests whose output coins are spent by another transaction of the same block are not requests any more
    for which in 0..4 {
        let k = PoolKey::new(Denom::Mel, Denom::Sym);
        let req = match which {
            0 | 1 => deposit_tx(&mut d, k, 4, 4, 0, &[]),
            2 => swap_tx(&mut d, k, true, 3, 0, TxKind::Swap, &[]),
            _ => withdraw_tx(&mut d, k, false, 0, &[]),
        };
        if let Some((t, w)) = req {
            if d.apply(&[t.clone()], 0, json!({"why": format!("request to be undermined: {}", w)})) {
                let h = d.view().height;
                let idx = if which == 1 { 1usize } else { 0 };
                if idx < t.outputs.len() {
                    let c = (CoinID::new(t.hash_nosigs(), idx as u8), CoinDataHeight { coin_data: t.outputs[idx].clone(), height: h });
                    let mut ins = vec![c.clone()];
                    if c.1.coin_data.denom != Denom::Mel {
                        if let Some(f) = mel_fee_coin(&d, &[c.0]) {
                            ins.push(f);
                        }
                    }
                    if let Some(sp) = d.build(TxKind::Normal, &ins, vec![], 1, vec![], 0) {
                        d.apply(&[sp], 0, json!({"why": format!("spend output {} of the request in the same block", idx)}));
                    }
                }
            }
        }
        d.seal_next(Some(true));
    }
    // one pool named by both of its valid names (short and long form) in one block, for each phase: the pool is settled once
    for phase in 0..3 {
        let k = PoolKey::new(Denom::Mel, Denom::Sym);
        let mut batch: Vec<Transaction> = vec![];
        let mut why = vec![];
        for spell in [0u32, 6] {
            let used: Vec<CoinID> = batch.iter().flat_map(|t| t.inputs.clone()).collect();
            let req = match phase {
                0 => swap_tx(&mut d, k, true, 3, spell, TxKind::Swap, &used),
                1 => deposit_tx(&mut d, k, 3, 3, spell, &used),
                _ => withdraw_tx(&mut d, k, true, spell, &used),
            };
            if let Some((t, w)) = req {
                if !t.inputs.iter().any(|c| used.contains(c)) {
                    batch.push(t);
                    why.push(w);
                }
            }
        }
        // (one batch each: a request that its own covenant refuses must not take the other with it)
        for (t, w) in batch.iter().zip(why.iter()) {
            d.apply(std::slice::from_ref(t), 0, json!({"why": format!("one pool under both of its names in one block: {}", w)}));
        }
        d.seal_next(Some(true));
    }
    // a LiqWithdraw with a change output (two outputs) is not a withdrawal request: its coins stay as they are
    for k in [PoolKey::new(Denom::Mel, Denom::Sym), PoolKey::new(Denom::Mel, Denom::Erg)] {
        if let Some((t, w)) = deposit_tx(&mut d, k, 4, 4, 0, &[]) {
            d.apply(&[t], 0, json!({"why": format!("deposit to hold liquidity tokens: {}", w)}));
        }
    }
    d.seal_next(Some(true));
    for k in [PoolKey::new(Denom::Mel, Denom::Sym), PoolKey::new(Denom::Mel, Denom::Erg)] {
        for all in [false, true] {
            if let Some((t, w)) = withdraw_tx(&mut d, k, all, 13, &[]) {
                d.apply(&[t], 0, json!({"why": w}));
            }
        }
    }
    d.seal_next(Some(true));
    // liquidity tokens that no deposit minted (a faucet may create coins of any denomination off mainnet): redeeming more than the
    // pool ever issued.  (Own job: C16 speaks of histories of swaps, deposits and withdrawals, not of faucets of liquidity tokens.)
    if forged && net != NetID::Mainnet {
        let k = PoolKey::new(Denom::Mel, Denom::Erg);
        let a = d.wal.address(CovKind::New(2));
        let liqs = known_pools(&d).iter().find(|x| x.0 == k).map(|x| x.1.liqs).unwrap_or(1_000_000_000);
        let f = d.faucet(vec![mk_coin(a, liqs + 5, k.liq_token_denom(), &[]), mk_coin(a, 50_000_000, Denom::Mel, &[])], 0, 88);
        d.apply(&[f], 0, json!({"why": "faucet of forged liquidity tokens"}));
        if let Some((t, w)) = withdraw_tx(&mut d, k, true, 0, &[]) {
            d.apply(&[t], 0, json!({"why": format!("withdrawal of more liquidity tokens than the pool issued: {}", w)}));
        }
        d.seal_next(Some(true));
        // two requests in one block, each within the pool's recorded liquidity, together beyond it (60% + 60%); then one within and one beyond
        for (salt, parts) in [(89u8, [6u128, 6u128]), (90u8, [3u128, 11u128])] {
            let liqs = known_pools(&d).iter().find(|x| x.0 == k).map(|x| x.1.liqs).unwrap_or(1_000_000_000);
            let f = d.faucet(vec![mk_coin(a, liqs / 10 * parts[0], k.liq_token_denom(), &[]), mk_coin(a, liqs / 10 * parts[1], k.liq_token_denom(), &[]),
                                  mk_coin(a, 60_000_000, Denom::Mel, &[]), mk_coin(a, 61_000_000, Denom::Mel, &[])], 0, salt);
            if !d.apply(&[f.clone()], 0, json!({"why": "faucet of forged liquidity tokens (two holders)"})) {
                continue;
            }
            let h = d.view().height;
            let coin = |j: usize| (CoinID::new(f.hash_nosigs(), j as u8), CoinDataHeight { coin_data: f.outputs[j].clone(), height: h });
            let mut batch = vec![];
            for j in 0..2usize {
                let to = d.wal.address(CovKind::New(1));
                if let Some(t) = d.build(TxKind::LiqWithdraw, &[coin(j), coin(j + 2)], vec![mk_coin(to, f.outputs[j].value.0, k.liq_token_denom(), &[])], 0, k.to_bytes().to_vec(), 0) {
                    batch.push(t);
                }
            }
            d.apply(&batch, 0, json!({"why": format!("two withdrawals of {}/10 and {}/10 of the pool's recorded liquidity in one block", parts[0], parts[1])}));
            d.seal_next(Some(true));
        }
    }
    if big {
        // a pool of MEL and a faucet-made token (the peg does not touch it): two swaps of 2^120 tokens push the token reserve above
        // 2^120; then two MEL swaps in one block pull more than 2^120 tokens out, so that one share exceeds the largest coin value
        let tok = Denom::Custom(TxHash(tmelcrypt::hash_single(b"verif-huge-token")));
        let k = PoolKey::new(Denom::Mel, tok);
        let a = d.wal.address(CovKind::New(2));
        let f = d.faucet(vec![mk_coin(a, 1u128 << 120, tok, &[]), mk_coin(a, 1u128 << 120, tok, &[]), mk_coin(a, 5000, tok, &[]),
                              mk_coin(a, 40_000_000, Denom::Mel, &[]), mk_coin(a, 41_000_000, Denom::Mel, &[]), mk_coin(a, 42_000_000, Denom::Mel, &[]),
                              mk_coin(a, 1_000_000_000 + 43_000_000, Denom::Mel, &[]), mk_coin(a, 3_000_000_000 + 44_000_000, Denom::Mel, &[])], 0, 78);
        if d.apply(&[f.clone()], 0, json!({"why": "holders of a huge token"})) {
            let h = d.view().height;
            let coin = |j: usize| (CoinID::new(f.hash_nosigs(), j as u8), CoinDataHeight { coin_data: f.outputs[j].clone(), height: h });
            let to = d.wal.address(CovKind::New(1));
            let (kl, kr) = (k.left(), k.right());
            let amt = |den: Denom, v: u128| mk_coin(to, v, den, &[]);
            if let Some(t) = d.build(TxKind::LiqDeposit, &[coin(3), coin(2)], vec![amt(kl, 1000), amt(kr, 1000)], 1, k.to_bytes().to_vec(), 0) {
                d.apply(&[t], 0, json!({"why": "pool of MEL and the huge token, 1000 : 1000"}));
            }
            d.seal_next(Some(true));
            let mut batch = vec![];
            for (tc, fc) in [(0usize, 4usize), (1, 5)] {
                if let Some(t) = d.build(TxKind::Swap, &[coin(tc), coin(fc)], vec![amt(tok, 1u128 << 120)], 1, k.to_bytes().to_vec(), 0) {
                    batch.push(t);
                }
            }
            d.apply(&batch, 0, json!({"why": "two swaps of 2^120 tokens each into the pool"}));
            d.seal_next(Some(true));
            let mut batch = vec![];
            for (mc, v) in [(6usize, 1_000_000_000u128), (7, 3_000_000_000)] {
                if let Some(t) = d.build(TxKind::Swap, &[coin(mc)], vec![amt(Denom::Mel, v)], 1, k.to_bytes().to_vec(), 0) {
                    batch.push(t);
                }
            }
            d.apply(&batch, 0, json!({"why": "two MEL swaps that pull more than 2^120 tokens out of the pool in one block"}));
            d.seal_next(Some(true));
        }
        // same-side requests that add up to more than 2^120 (each at most 2^120)
        let a = d.wal.address(CovKind::New(0));
        let f = d.faucet(vec![mk_coin(a, 1u128 << 120, Denom::Mel, &[]), mk_coin(a, (1u128 << 119) + 40_000_000, Denom::Mel, &[]), mk_coin(a, 1u128 << 120, Denom::Sym, &[]),
                              mk_coin(a, 1u128 << 119, Denom::Sym, &[]), mk_coin(a, 90_000_000, Denom::Mel, &[]), mk_coin(a, 91_000_000, Denom::Mel, &[])], 0, 77);
        d.apply(&[f], 0, json!({"why": "huge holders"}));
        d.seal_next(Some(true));
        for side_left in [true, false] {
            let k = PoolKey::new(Denom::Mel, Denom::Sym);
            let mut batch = vec![];
            let mut used: Vec<CoinID> = vec![];
            for _ in 0..2 {
                // the largest coins of the side's denomination
                let denom = if side_left { k.left() } else { k.right() };
                let mut cands: Vec<_> = d.spendable().into_iter().filter(|(c, x)| x.coin_data.denom == denom && !used.contains(c)).collect();
                cands.sort_by_key(|(_, x)| std::cmp::Reverse(x.coin_data.value.0));
                if let Some(c) = cands.first().cloned() {
                    let mut ins = vec![c.clone()];
                    if denom != Denom::Mel {
                        if let Some(f) = mel_fee_coin(&d, &used) { ins.push(f); }
                    }
                    let amount = c.1.coin_data.value.0.min(1u128 << 120) - if denom == Denom::Mel { 30_000_000 } else { 0 };
                    let to = d.wal.address(CovKind::New(1));
                    if let Some(t) = d.build(TxKind::Swap, &ins, vec![mk_coin(to, amount, denom, &[])], 1, k.to_bytes().to_vec(), 0) {
                        used.extend(t.inputs.iter().copied());
                        batch.push(t);
                    }
                }
            }
            if batch.len() == 2 {
                d.apply(&batch, 0, json!({"why": "two same-side swaps adding up to more than 2^120"}));
            }
            d.seal_next(None);
        }
    }
    if !forged {
        lopsided_and_joint(&mut d, 201);
    }
    for b in 0..blocks {
        let nbatches = d.r.gen_range(1..=2);
        for _ in 0..nbatches {
            let pools = known_pools(&d);
            let mut batch: Vec<Transaction> = vec![];
            let mut why: Vec<String> = vec![];
            let nreq = d.r.gen_range(2..=9);
            let focus = pools.choose(&mut d.r).map(|x| x.0);
            for _ in 0..nreq {
                let key = if d.r.gen_bool(0.7) { focus.unwrap() } else { pools.choose(&mut d.r).unwrap().0 };
                let used: Vec<CoinID> = batch.iter().flat_map(|t| t.inputs.clone()).collect();
                let spell = if d.r.gen_bool(0.7) { 0 } else { d.r.gen_range(0..14) };
                let req = match d.r.gen_range(0..12) {
                    0..=6 => {
                        let kind = if d.r.gen_bool(0.9) { TxKind::Swap } else { [TxKind::Normal, TxKind::LiqDeposit, TxKind::LiqWithdraw][d.r.gen_range(0..3)] };
                        let (s1, f1) = (d.r.gen(), d.r.gen_range(0..5));
                        swap_tx(&mut d, key, s1, f1, spell, kind, &used)
                    }
                    7..=9 => {
                        let (f1, f2) = (d.r.gen_range(0..6), d.r.gen_range(0..6));
                        deposit_tx(&mut d, key, f1, f2, spell, &used)
                    }
                    _ => {
                        let all = d.r.gen_bool(0.4);
                        withdraw_tx(&mut d, key, all, spell, &used)
                    }
                };
                if let Some((t, w)) = req {
                    let live: Vec<CoinID> = d.coins().into_iter().map(|x| x.0).collect();
                    if t.inputs.iter().any(|c| used.contains(c)) || !t.inputs.iter().all(|c| live.contains(c)) {
                        continue;
                    }
                    batch.push(t);
                    why.push(w);
                }
            }
            if !batch.is_empty() {
                d.apply(&batch, 0, json!({"why": why}));
            }
        }
        if b % 5 == 4 {
            // huge one-sided swap against a built-in pool (drain attempt)
            let k = PoolKey::new(Denom::Mel, Denom::Sym);
            if let Some((t, w)) = swap_tx(&mut d, k, true, 4, 0, TxKind::Swap, &[]) {
                d.apply(&[t], 0, json!({"why": format!("drain attempt: {}", w)}));
            }
        }
        d.seal_next(None);
    }
    // (in the histories whose pools keep ordinary sizes: against reserves of 2^100 and more every small swap rounds the same way)
    if !big && !forged && net != NetID::Mainnet {
        many_swaps(&mut d);
    }
}

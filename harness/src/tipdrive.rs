//! Activation heights (all properties whose rules switch with a TIP or a halving): one lineage per network that is carried,
//! by fabricating states just below each boundary, across TIP-901 / 902 / 906 / 909 / 909a, the end of the legacy deposit
//! rule and the subsidy halvings, with payments, pool requests and proposer actions in the blocks around each boundary.
use crate::drive::{step, Driver};
use crate::swapdrive;
use crate::wallet::{mk_coin, CovKind};
use melstructs::*;
use serde_json::json;
use std::collections::BTreeMap;

pub fn tip_history(out: &mut crate::Out, tag: &str, seed: u64, net: NetID) {
    let mainnet = net == NetID::Mainnet;
    let mut d = if mainnet {
        Driver::new(out, tag, seed, net, 200, Denom::Sym, 1u128 << 50, 1 << 46, BTreeMap::new())
    } else {
        Driver::new(out, tag, seed, net, 200, Denom::Mel, 1u128 << 60, 1 << 40, BTreeMap::new())
    };
    d.wal.simple = true;
    let mut sealed = d.seal_next(Some(false)).unwrap();
    if mainnet {
        for _ in 0..6 {
            sealed = d.seal_next(Some(true)).unwrap();
        }
    } else {
        let a = d.wal.address(CovKind::New(1));
        let f = d.faucet(vec![mk_coin(a, 50_000_000_000, Denom::Sym, &[]), mk_coin(a, 70_000_000_000, Denom::Erg, &[]), mk_coin(a, 1_000_000_000_000, Denom::Mel, &[]),
                              mk_coin(a, 900_000_000, Denom::Mel, &[]), mk_coin(a, 800_000_000, Denom::Mel, &[]), mk_coin(a, 30_000_000_000, Denom::Sym, &[])], 0, 5);
        d.apply(&[f], 0, json!({"why": "holders"}));
        sealed = d.seal_next(Some(true)).unwrap();
    }
    let boundaries: Vec<u64> = match net {
        NetID::Mainnet => vec![42_700, 180_000, 830_000, 950_000, 978_392, 1_048_000, 1_950_000, 2_950_000],
        NetID::Testnet => vec![500, 42_700, 978_392, 1_950_000],
        _ => vec![42_700, 950_000, 1_950_000, 2_950_000],   // (the specification's DOSC inflator 10^6 + h is exact up to height 3*10^6 only)
    };
    for b in boundaries {
        let j = d.w.jump(sealed, b - 3);
        d.cur = d.w.next(j);
        d.block_start = d.cur;
        d.block_batches.clear();
        // blocks b-2 (proposer action), b-1 (a tip is paid, no proposer action: tips are pending at the boundary; the block is also
        // restarted), b (proposer action), b+1
        for k in 0..4 {
            step(&mut d);
            if k != 2 {
                swapdrive::pool_step(&mut d);
            } else if let Some((t, w)) = swapdrive::deposit_tx(&mut d, PoolKey::new(Denom::Mel, Denom::Sym), 3, 3, 0, &[]) {
                d.apply(&[t], 0, json!({"why": format!("deposit at a boundary block: {}", w)}));
            }
            if !mainnet && (k == 1 || k == 2) {
                // faucets accepted long ago stay spent across the boundary
                let olds: Vec<Transaction> = d.faucets.iter().take(3).cloned().collect();
                for f in olds {
                    d.apply(&[f], 0, json!({"why": "replay of an old faucet next to an activation boundary"}));
                }
            }
            if k == 1 {
                let sp = d.spendable();
                if let Some(c) = sp.iter().find(|(_, x)| x.coin_data.denom == Denom::Mel && x.coin_data.value.0 > 50_000_000).cloned() {
                    if let Some(t) = d.build(TxKind::Normal, &[c], vec![], 1, vec![], 7777) {
                        d.apply(&[t], 0, json!({"why": "payment with a tip in the last block before the boundary"}));
                    }
                }
            }
            sealed = d.seal_next(Some(k == 0 || k == 2)).unwrap();
            if k == 1 {
                // a node restarted at this very block goes on like the original: same next state, same block b
                let twin = d.w.restart(sealed);
                let key = format!("C08|{}|boundary|{}", tag, b);
                let nt = d.w.next(twin);
                let dest = d.wal.address(CovKind::True);
                let act = Some(ProposerAction { fee_multiplier_delta: -100, reward_dest: dest });
                let sa = d.w.seal(d.cur, act, json!({"why": "empty boundary block on the original", "agreeKey": key, "prop": "C08"}));
                let sb = d.w.seal(nt, act, json!({"why": "empty boundary block on the restarted twin", "agreeKey": key, "prop": "C08"}));
                // ... and each accepts the other's block
                if let (Some(sa), Some(sb)) = (sa, sb) {
                    let (ba, bb) = (d.w.sealed(sa).to_block(), d.w.sealed(sb).to_block());
                    let hon = Some(ba.header);
                    let x = |m: &str, h: &Option<Header>| json!({"mut": m, "honestOk": h.is_some(), "honest": h.map(|h| crate::lj::hx(&h.hash())).unwrap_or_default(),
                                                                  "honestHeader": h.map(|h| crate::lj::header_j(&h)).unwrap_or(json!({}))});
                    d.w.block(twin, &ba, 0, x("none (the original's boundary block on the restarted twin)", &hon));
                    // the same block claiming a neighbouring fee multiplier (what the rule of the other side of the boundary may give)
                    for dm in [-2i64, -1, 1, 2] {
                        let mut fh = ba.header;
                        fh.fee_multiplier = (fh.fee_multiplier as i128 + dm as i128).max(0) as u128;
                        let forged = Block { header: fh, transactions: ba.transactions.clone(), proposer_action: ba.proposer_action };
                        d.w.block(twin, &forged, 0, x(&format!("header.fee_multiplier {:+} at the boundary block", dm), &hon));
                        d.w.block(sealed, &forged, 0, x(&format!("header.fee_multiplier {:+} at the boundary block (on the original)", dm), &hon));
                    }
                    d.w.block(sealed, &bb, 0, x("none (the twin's boundary block on the original)", &Some(bb.header)));
                }
            }
        }
    }
}


/// the standard genesis configurations and one with stakes, realised and carried over two block boundaries
pub fn genesis_configs(out: &mut crate::Out, tag: &str) {
    use crate::world::World;
    use melstf::GenesisConfig;
    let mut w = World::new(out, tag);
    let mut cfgs = vec![GenesisConfig::std_mainnet(), GenesisConfig::std_testnet()];
    let mut stakes = BTreeMap::new();
    for i in 0..3u8 {
        stakes.insert(TxHash(tmelcrypt::hash_single([i, 1])), StakeDoc { pubkey: crate::keys::from_seed(&[i; 32]).0, e_start: i as u64, e_post_end: 2 + i as u64, syms_staked: CoinValue(100 * i as u128) });
    }
    cfgs.push(GenesisConfig { network: NetID::Custom08, init_coindata: mk_coin(Address(tmelcrypt::hash_single(b"g")), 12345, Denom::Erg, &[1, 2]), stakes, init_fee_pool: CoinValue(777), init_fee_multiplier: 3 });
    for cfg in cfgs {
        let sid = w.genesis(cfg);
        if let Some(s1) = w.seal(sid, None, json!({"why": "genesis block"})) {
            let n1 = w.next(s1);
            if let Some(s2) = w.seal(n1, Some(ProposerAction { fee_multiplier_delta: 3, reward_dest: Address(tmelcrypt::hash_single(b"p")) }), json!({"why": "block 1"})) {
                w.restart(s2);
                w.next(s2);
            }
        }
    }
}

/// Round heights: one lineage carried (by fabricated jumps) to every power of two from 2^8 to 2^21, their neighbours and a few multiples of
/// 4096 / 10^5, in ascending order, with two sealed blocks at each: whatever a node keeps in tables that grow with the height
/// (the DOSC inflator table) is exercised exactly at the sizes where chunked or doubling growth has its edges.
pub fn round_heights(out: &mut crate::Out, tag: &str, seed: u64) {
    let mut d = Driver::new(out, tag, seed, NetID::Custom02, 200, Denom::Mel, 1u128 << 60, 1 << 40, BTreeMap::new());
    d.wal.simple = true;
    let mut sealed = d.seal_next(Some(false)).unwrap();
    let mut hs: Vec<u64> = vec![];
    for k in 8..=21u32 {
        let p = 1u64 << k;
        hs.extend([p - 1, p, p + 1]);
    }
    hs.extend([3 * 4096, 5 * 4096, 10_000, 100_000, 1_000_000, 3 * 65536, 3 * 1_048_576 - 200_000]);
    hs.sort();
    hs.dedup();
    for h in hs {
        if h < 3 || h > 2_990_000 {
            continue;
        }
        let j = d.w.jump(sealed, h - 1);
        d.cur = d.w.next(j);
        d.block_start = d.cur;
        d.block_batches.clear();
        step(&mut d);
        match d.seal_next(Some(true)) {
            Some(s) => sealed = s,
            None => continue,
        }
        if let Some(s) = d.seal_next(Some(false)) {
            sealed = s;
        }
    }
}

//! Activation heights (all properties whose rules switch with a TIP or a halving): one lineage per network that is carried,
//! by fabricating states just below each boundary, across TIP-901 / 902 / 906 / 909 / 909a, the end of the legacy deposit
//! rule and the subsidy halvings, with payments, pool requests and proposer actions in the blocks around each boundary.
use crate::drive::{step, Driver};
use crate::swapdrive;
use crate::wallet::{mk_coin, CovKind};
use melstructs::*;
use serde_json::json;
use std::collections::BTreeMap;

pub fn tip_history(out: &mut crate::Out, tag: &str, seed: u64, net: NetID) {
    let mainnet = net == NetID::Mainnet;
    let mut d = if mainnet {
        Driver::new(out, tag, seed, net, 200, Denom::Sym, 1u128 << 50, 1 << 46, BTreeMap::new())
    } else {
        Driver::new(out, tag, seed, net, 200, Denom::Mel, 1u128 << 60, 1 << 40, BTreeMap::new())
    };
    d.wal.simple = true;
    let mut sealed = d.seal_next(Some(false)).unwrap();
    if mainnet {
        for _ in 0..6 {
            sealed = d.seal_next(Some(true)).unwrap();
        }
    } else {
        let a = d.wal.address(CovKind::New(1));
        let f = d.faucet(vec![mk_coin(a, 50_000_000_000, Denom::Sym, &[]), mk_coin(a, 70_000_000_000, Denom::Erg, &[]), mk_coin(a, 1_000_000_000_000, Denom::Mel, &[]),
                              mk_coin(a, 900_000_000, Denom::Mel, &[]), mk_coin(a, 800_000_000, Denom::Mel, &[]), mk_coin(a, 30_000_000_000, Denom::Sym, &[])], 0, 5);
        d.apply(&[f], 0, json!({"why": "holders"}));
        sealed = d.seal_next(Some(true)).unwrap();
    }
    let boundaries: Vec<u64> = match net {
        NetID::Mainnet => vec![42_700, 180_000, 830_000, 950_000, 978_392, 1_048_000, 1_950_000, 2_950_000],
        NetID::Testnet => vec![500, 42_700, 978_392, 1_950_000],
        _ => vec![42_700, 950_000, 1_950_000, 2_950_000],   // (the specification's DOSC inflator 10^6 + h is exact up to height 3*10^6 only)
    };
    for b in boundaries {
        let j = d.w.jump(sealed, b - 2);
        d.cur = d.w.next(j);
        d.block_start = d.cur;
        d.block_batches.clear();
        // blocks b-1, b, b+1
        for k in 0..3 {
            step(&mut d);
            if k != 1 {
                swapdrive::pool_step(&mut d);
            } else if let Some((t, w)) = swapdrive::deposit_tx(&mut d, PoolKey::new(Denom::Mel, Denom::Sym), 3, 3, 0, &[]) {
                d.apply(&[t], 0, json!({"why": format!("deposit at a boundary block: {}", w)}));
            }
            sealed = d.seal_next(Some(k != 2)).unwrap();
        }
    }
}


/// the standard genesis configurations and one with stakes, realised and carried over two block boundaries
pub fn genesis_configs(out: &mut crate::Out, tag: &str) {
    use crate::world::World;
    use melstf::GenesisConfig;
    let mut w = World::new(out, tag);
    let mut cfgs = vec![GenesisConfig::std_mainnet(), GenesisConfig::std_testnet()];
    let mut stakes = BTreeMap::new();
    for i in 0..3u8 {
        stakes.insert(TxHash(tmelcrypt::hash_single([i, 1])), StakeDoc { pubkey: crate::keys::from_seed(&[i; 32]).0, e_start: i as u64, e_post_end: 2 + i as u64, syms_staked: CoinValue(100 * i as u128) });
    }
    cfgs.push(GenesisConfig { network: NetID::Custom08, init_coindata: mk_coin(Address(tmelcrypt::hash_single(b"g")), 12345, Denom::Erg, &[1, 2]), stakes, init_fee_pool: CoinValue(777), init_fee_multiplier: 3 });
    for cfg in cfgs {
        let sid = w.genesis(cfg);
        if let Some(s1) = w.seal(sid, None, json!({"why": "genesis block"})) {
            let n1 = w.next(s1);
            if let Some(s2) = w.seal(n1, Some(ProposerAction { fee_multiplier_delta: 3, reward_dest: Address(tmelcrypt::hash_single(b"p")) }), json!({"why": "block 1"})) {
                w.restart(s2);
                w.next(s2);
            }
        }
    }
}

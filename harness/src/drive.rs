//! Ledger workloads: random multi-kind histories with mutations, directed scenarios.
use crate::lj;
use crate::wallet::{mk_coin, min_fee, CovKind, Wallet};
use crate::world::World;
use crate::Out;
use melstf::GenesisConfig;
use melstructs::*;
use rand::{rngs::StdRng, seq::SliceRandom, Rng, SeedableRng};
use serde_json::json;
use std::collections::BTreeMap;

pub struct Driver<'a> {
    pub w: World<'a>,
    pub wal: Wallet,
    pub r: StdRng,
    pub cur: usize,
    pub net: NetID,
    pub faucets: Vec<Transaction>,
    pub old_txs: Vec<Transaction>,
    pub stake_txs: Vec<Transaction>,
    /// state at the start of the current block and the batches accepted since
    pub block_start: usize,
    pub block_batches: Vec<Vec<Transaction>>,
}

pub fn net_of(s: &str) -> NetID {
    match s {
        "mainnet" => NetID::Mainnet,
        "testnet" => NetID::Testnet,
        "custom08" => NetID::Custom08,
        "custom03" => NetID::Custom03,
        _ => NetID::Custom02,
    }
}

impl<'a> Driver<'a> {
    pub fn new(out: &'a mut Out, tag: &str, seed: u64, net: NetID, fee_mult: u128, init_denom: Denom, init_value: u128, fee_pool: u128,
               stakes: BTreeMap<TxHash, StakeDoc>) -> Self {
        let mut r = StdRng::seed_from_u64(seed);
        let mut wal = Wallet::new(4, &mut r);
        let a0 = wal.address(CovKind::New(0));
        let mut w = World::new(out, tag);
        let cfg = GenesisConfig { network: net, init_coindata: mk_coin(a0, init_value, init_denom, &[]), stakes, init_fee_pool: CoinValue(fee_pool),
                                  init_fee_multiplier: fee_mult };
        let cur = w.genesis(cfg);
        Driver { w, wal, r, cur, net, faucets: vec![], old_txs: vec![], stake_txs: vec![], block_start: cur, block_batches: vec![] }
    }

    pub fn view(&self) -> melstf::VerifView<novasmt::InMemoryCas> {
        self.w.unsealed(self.cur).verif_view()
    }

    pub fn coins(&self) -> Vec<(CoinID, CoinDataHeight)> {
        lj::coins_typed(&self.view(), &self.w.names)
    }

    pub fn spendable(&self) -> Vec<(CoinID, CoinDataHeight)> {
        self.coins()
            .into_iter()
            .filter(|(_, d)| match self.wal.reg.get(&d.coin_data.covhash) {
                Some((_, CovKind::False)) | Some((_, CovKind::Garbage)) | None => false,
                _ => true,
            })
            .collect()
    }

    pub fn fee_mult(&self) -> u128 {
        self.view().fee_multiplier
    }

    /// Builds a transaction spending `inputs`, paying `fixed` outputs first and the remainder to `nchange` random addresses.
    /// Returns None if the MEL in the inputs cannot cover the fee.
    pub fn build(&mut self, kind: TxKind, inputs: &[(CoinID, CoinDataHeight)], fixed: Vec<CoinData>, nchange: usize, data: Vec<u8>, tip: u128) -> Option<Transaction> {
        let mut totals: BTreeMap<Denom, u128> = BTreeMap::new();
        for (_, d) in inputs {
            *totals.entry(d.coin_data.denom).or_insert(0) += d.coin_data.value.0;
        }
        for o in fixed.iter() {
            if o.denom == Denom::NewCustom {
                continue;
            }
            let e = totals.entry(o.denom).or_insert(0);
            if *e < o.value.0 {
                return None;
            }
            *e -= o.value.0;
        }
        // legacy signature covenants read signature slot 0 wherever they are spent: spend them first so that the slots of
        // new-style covenants (slot = input position) do not collide with them
        let mut inputs: Vec<(CoinID, CoinDataHeight)> = inputs.to_vec();
        inputs.sort_by_key(|(_, d)| match self.wal.reg.get(&d.coin_data.covhash) {
            Some((_, CovKind::Legacy(_))) => 0,
            _ => 1,
        });
        let inputs = &inputs[..];
        let input_data: Vec<Option<CoinData>> = inputs.iter().map(|(_, d)| Some(d.coin_data.clone())).collect();
        let change_addrs: Vec<Address> = (0..nchange.max(1)).map(|_| self.wal.random_address(&mut self.r)).collect();
        let mut fee = 0u128;
        let mut tx = Transaction::new(kind);
        for _ in 0..6 {
            let mut outs = fixed.clone();
            for (d, v) in totals.iter() {
                let mut v = *v;
                if *d == Denom::Mel {
                    if v < fee {
                        return None;
                    }
                    v -= fee;
                }
                if v == 0 {
                    continue;
                }
                if nchange >= 2 && v >= 2 && *d == Denom::Mel {
                    let a = v / 3;
                    outs.push(mk_coin(change_addrs[0], a, *d, &[]));
                    outs.push(mk_coin(change_addrs[1 % change_addrs.len()], v - a, *d, &[]));
                } else if nchange >= 1 {
                    outs.push(mk_coin(change_addrs[0], v, *d, &[]));
                } else {
                    // no change wanted: everything that is not fixed goes to the fee (MEL) or is an imbalance (other denoms)
                    if *d == Denom::Mel {
                        fee += v;
                    }
                }
            }
            tx = Transaction { kind, inputs: inputs.iter().map(|x| x.0).collect(), outputs: outs, fee: CoinValue(fee), covenants: vec![], data: data.clone().into(), sigs: vec![] };
            self.wal.authorise(&mut tx, &input_data);
            let need = min_fee(&tx, self.fee_mult()) + tip;
            if nchange == 0 || need == fee {
                break;
            }
            fee = need;
        }
        self.wal.authorise(&mut tx, &input_data);
        Some(tx)
    }

    pub fn resign(&self, tx: &mut Transaction) {
        let coins: BTreeMap<CoinID, CoinDataHeight> = self.coins().into_iter().collect();
        let input_data: Vec<Option<CoinData>> = tx.inputs.iter().map(|c| coins.get(c).map(|d| d.coin_data.clone())).collect();
        self.wal.authorise(tx, &input_data);
    }

    /// a plain payment from 1..3 random spendable coins
    pub fn random_pay(&mut self) -> Option<Transaction> {
        let mut sp = self.spendable();
        if sp.is_empty() {
            return None;
        }
        sp.shuffle(&mut self.r);
        let n = self.r.gen_range(1..=3.min(sp.len()));
        let mut ins: Vec<(CoinID, CoinDataHeight)> = sp[..n].to_vec();
        if !ins.iter().any(|(_, d)| d.coin_data.denom == Denom::Mel) {
            if let Some(m) = sp.iter().find(|(_, d)| d.coin_data.denom == Denom::Mel && d.coin_data.value.0 > 0) {
                ins.push(m.clone());
            }
        }
        let nchange = self.r.gen_range(1..=2);
        let tip = if self.r.gen_bool(0.4) { self.r.gen_range(0..5000) } else { 0 };
        let mut fixed = vec![];
        if self.r.gen_bool(0.15) {
            let a = self.wal.random_address(&mut self.r);
            fixed.push(mk_coin(a, self.r.gen_range(0..100000), Denom::NewCustom, &[9]));
        }
        if self.r.gen_bool(0.1) {
            // burn a little MEL
            let melin: u128 = ins.iter().filter(|(_, d)| d.coin_data.denom == Denom::Mel).map(|(_, d)| d.coin_data.value.0).sum();
            if melin > 100000 {
                fixed.push(mk_coin(Address::coin_destroy(), self.r.gen_range(0..1000), Denom::Mel, &[]));
            }
        }
        let data = if self.r.gen_bool(0.2) { vec![1, 2, 3] } else { vec![] };
        self.build(TxKind::Normal, &ins, fixed, nchange, data, tip)
    }

    /// faucet paying the minimum fee plus `extra`
    pub fn faucet(&mut self, outs: Vec<CoinData>, extra: u128, salt: u8) -> Transaction {
        let mut tx = Transaction { kind: TxKind::Faucet, inputs: vec![], outputs: outs, fee: CoinValue(0), covenants: vec![], data: vec![salt].into(), sigs: vec![] };
        for _ in 0..4 {
            tx.fee = CoinValue(min_fee(&tx, self.fee_mult()) + extra);
        }
        self.faucets.push(tx.clone());
        tx
    }

    /// applies a batch to the current state; on success the current state advances
    pub fn apply(&mut self, txs: &[Transaction], threads: usize, extra: serde_json::Value) -> bool {
        let (nid, ok) = self.w.batch(self.cur, txs, threads, extra);
        if ok {
            self.cur = nid;
            self.block_batches.push(txs.to_vec());
            for t in txs {
                self.old_txs.push(t.clone());
            }
        }
        ok
    }

    pub fn mutate(&mut self, tx: &Transaction) -> (Transaction, &'static str) {
        let k = self.r.gen_range(0..N_MUTATIONS);
        self.mutate_k(tx, k)
    }

    pub fn mutate_k(&mut self, tx: &Transaction, k: usize) -> (Transaction, &'static str) {
        let mut t = tx.clone();
        match k {
            0 => {
                // underpay by one, keeping the balance
                if t.fee.0 > 0 {
                    t.fee.0 -= 1;
                    if let Some(o) = t.outputs.iter_mut().find(|o| o.denom == Denom::Mel) {
                        o.value.0 += 1;
                    } else {
                        t.outputs.push(mk_coin(self.wal.address(CovKind::True), 1, Denom::Mel, &[]));
                    }
                    self.resign(&mut t);
                    return (t, "fee-1");
                }
                (t, "same")
            }
            1 => {
                if let Some(o) = t.outputs.first_mut() {
                    o.value.0 += 1;
                }
                self.resign(&mut t);
                (t, "unbalanced+1")
            }
            2 => {
                if let Some(o) = t.outputs.first_mut() {
                    o.value.0 = o.value.0.saturating_sub(1);
                }
                self.resign(&mut t);
                (t, "unbalanced-1")
            }
            3 => {
                if let Some(c) = t.inputs.first().copied() {
                    t.inputs.push(c);
                }
                self.resign(&mut t);
                (t, "repeated-input")
            }
            4 => {
                t.covenants.clear();
                (t, "no-covenants")
            }
            5 => {
                if let Some(s) = t.sigs.first_mut() {
                    let mut v = s.to_vec();
                    if !v.is_empty() {
                        v[0] ^= 1;
                    }
                    *s = v.into();
                }
                (t, "bad-sig")
            }
            6 => {
                // tamper after signing
                if let Some(o) = t.outputs.first_mut() {
                    o.additional_data = vec![0xee].into();
                }
                (t, "tampered-output")
            }
            7 => {
                t.inputs.push(CoinID::new(TxHash(tmelcrypt::hash_single(b"nope")), 0));
                self.resign(&mut t);
                (t, "missing-input")
            }
            8 => {
                if let Some(o) = t.outputs.first_mut() {
                    o.value = CoinValue((1u128 << 120) + 1);
                }
                self.resign(&mut t);
                (t, "overlarge-output")
            }
            9 => {
                t.sigs.reverse();
                (t, "sigs-reversed")
            }
            10 => {
                // signed by the wrong key
                let h = t.hash_nosigs();
                for s in t.sigs.iter_mut() {
                    *s = self.wal.keys[3].1.sign(&h.0).into();
                }
                (t, "wrong-key")
            }
            11 => {
                t.sigs.clear();
                (t, "no-sigs")
            }
            12 => {
                t.kind = TxKind::Swap;
                self.resign(&mut t);
                (t, "kind-swap")
            }
            13 => {
                t.fee = CoinValue(0);
                self.resign(&mut t);
                (t, "zero-fee-unbalanced")
            }
            14 => {
                let last = t.inputs.len() - 1;
                t.inputs.swap(0, last);
                // signatures left in place: slots no longer match for new-style covenants
                (t, "inputs-swapped-sigs-kept")
            }
            15 => {
                // a faucet that spends coins: free issuance off the mainnet, rejected on it
                t.kind = TxKind::Faucet;
                if let Some(o) = t.outputs.first_mut() {
                    o.value.0 += 1_000_000;
                }
                let a = self.wal.address(CovKind::True);
                t.outputs.push(mk_coin(a, 77_000, Denom::Sym, &[]));
                // a faucet need not balance: it pays exactly the minimum fee of its new shape
                for _ in 0..4 {
                    t.fee = CoinValue(min_fee(&t, self.fee_mult()));
                    self.resign(&mut t);
                }
                (t, "faucet-with-inputs")
            }
            16 => {
                // same body, one more (unused) signature: a larger transaction, hence a larger minimum fee
                t.sigs.push(vec![0u8; 64].into());
                (t, "extra-signature")
            }
            17 => {
                // same body, a very long unused signature entry
                t.sigs.push(vec![7u8; 3000].into());
                (t, "long-extra-signature")
            }
            _ => (t, "same"),
        }
    }

    pub fn seal_next(&mut self, with_action: Option<bool>) -> Option<usize> {
        let act = match with_action.unwrap_or_else(|| self.r.gen_bool(0.6)) {
            true => {
                // now and then the reward goes to the coin-destruction address (it is still a coin of the state)
                let dest = if self.r.gen_bool(0.15) { Address::coin_destroy() } else { self.wal.random_address(&mut self.r) };
                Some(ProposerAction { fee_multiplier_delta: self.r.gen_range(-128i32..=127) as i8, reward_dest: dest })
            }
            false => None,
        };
        let sid = match self.w.seal(self.cur, act, json!({})) {
            Some(sid) => sid,
            None => {
                // sealing panicked (logged as an event).  Rebuild the block without the batches that make it panic so the history can go on.
                let mut s = self.block_start;
                let batches = std::mem::take(&mut self.block_batches);
                for b in batches.iter() {
                    let (nid, ok) = self.w.batch(s, b, 0, json!({"why": "rebuild-after-seal-panic"}));
                    if !ok {
                        continue;
                    }
                    let probe = self.w.unsealed(nid).clone();
                    let fine = std::panic::catch_unwind(std::panic::AssertUnwindSafe(|| probe.seal(act))).is_ok();
                    if fine {
                        s = nid;
                    }
                }
                self.cur = s;
                self.w.seal(self.cur, act, json!({"why": "after-rebuild"}))?
            }
        };
        self.cur = self.w.next(sid);
        self.block_start = self.cur;
        self.block_batches.clear();
        Some(sid)
    }
}

/// All permutations of 0..n (n <= 4), or `k` random ones for larger n.
pub fn permutations(n: usize, k: usize, r: &mut StdRng) -> Vec<Vec<usize>> {
    if n <= 4 {
        let mut out = vec![];
        let mut idx: Vec<usize> = (0..n).collect();
        fn rec(a: &mut Vec<usize>, i: usize, out: &mut Vec<Vec<usize>>) {
            if i == a.len() {
                out.push(a.clone());
                return;
            }
            for j in i..a.len() {
                a.swap(i, j);
                rec(a, i + 1, out);
                a.swap(i, j);
            }
        }
        rec(&mut idx, 0, &mut out);
        out
    } else {
        (0..k)
            .map(|_| {
                let mut v: Vec<usize> = (0..n).collect();
                v.shuffle(r);
                v
            })
            .collect()
    }
}

pub const N_MUTATIONS: usize = 19;

/// every single-transaction mutation once, alone and next to a valid payment (in both orders), against the current state
pub fn mutation_sweep(d: &mut Driver) {
    for k in 0..N_MUTATIONS {
        let base = match d.random_pay() { Some(t) => t, None => continue };
        let (m, name) = d.mutate_k(&base, k);
        if name == "same" {
            continue;
        }
        // the unmutated original is validated first, on a side branch that is then abandoned (a mempool would do that)
        let _ = d.w.batch(d.cur, &[base.clone()], 0, json!({"why": format!("sweep: original of {} on an abandoned branch", name)}));
        let other = d.random_pay().filter(|o| !o.inputs.iter().any(|c| m.inputs.contains(c)));
        if let Some(o) = other {
            if d.apply(&[o.clone(), m.clone()], 0, json!({"why": format!("sweep pay, {}", name)})) {
                continue;
            }
            if d.apply(&[m.clone(), o], 0, json!({"why": format!("sweep {}, pay", name)})) {
                continue;
            }
        }
        d.apply(&[m], 0, json!({"why": format!("sweep {}", name)}));
    }
}

/// Random multi-kind history.
pub fn random_history(out: &mut Out, tag: &str, seed: u64, net: NetID, blocks: usize, fee_mult: u128, jump: u64) {
    let mut d = Driver::new(out, tag, seed, net, fee_mult, Denom::Mel, 1u128 << 60, 1 << 40, BTreeMap::new());
    // bootstrap: first block creates the pools; faucets provide SYM / ERG when allowed
    d.seal_next(Some(false));
    if net != NetID::Mainnet {
        let a = d.wal.address(CovKind::New(1));
        let b = d.wal.address(CovKind::Legacy(2));
        let f = d.faucet(vec![mk_coin(a, 5_000_000_000, Denom::Sym, &[]), mk_coin(b, 7_000_000_000, Denom::Erg, &[]), mk_coin(a, 1_000_000_000_000, Denom::Mel, &[])], 0, 1);
        d.apply(&[f], 0, json!({"why": "bootstrap-faucet"}));
    }
    if net == NetID::Mainnet {
        // the one grandfathered historical faucet (block 1214212 of mainnet), applied and replayed
        let exceptional = Transaction {
            kind: TxKind::Faucet,
            inputs: vec![],
            outputs: vec![CoinData { value: CoinValue::from_millions(1001u64), denom: Denom::Mel,
                                     covhash: "t3ew4xh2yts8j1a8vzdfpbkzzvb5gz3sn7s9jw7qc9djrph2wpg52g".parse().unwrap(), additional_data: vec![].into() }],
            data: hex::decode("202fb0573b6dfe780f249bec6069bb39dbccb7ed9536c0480e20e1e29050f430").unwrap().into(),
            fee: CoinValue::from_millions(1001u64),
            covenants: vec![],
            sigs: vec![],
        };
        d.apply(&[exceptional.clone()], 0, json!({"why": "grandfathered mainnet faucet"}));
        d.apply(&[exceptional.clone()], 0, json!({"why": "grandfathered mainnet faucet again in the same block"}));
        d.faucets.push(exceptional);
    }
    let jump_at = if jump > 0 { blocks / 2 } else { usize::MAX };
    for _b in 0..blocks {
        if _b == 1 {
            mutation_sweep(&mut d);
        }
        if _b == jump_at {
            if let Some(sealed) = d.seal_next(Some(true)) {
                let j = d.w.jump(sealed, jump);
                d.cur = d.w.next(j);
                d.block_start = d.cur;
                d.block_batches.clear();
            }
        }
        let nb = d.r.gen_range(1..5);
        for _ in 0..nb {
            step(&mut d);
        }
        d.seal_next(None);
    }
    // tips of one block adding up to more than the largest coin value: the proposer's coin is still the whole amount
    if net != NetID::Mainnet {
        let a = d.wal.address(CovKind::True);
        let mut f1 = d.faucet(vec![mk_coin(a, 1, Denom::Mel, &[])], 0, 201);
        f1.fee = CoinValue(1u128 << 120);
        let mut f2 = d.faucet(vec![mk_coin(a, 2, Denom::Mel, &[])], 0, 202);
        f2.fee = CoinValue((1u128 << 119) + 12345);
        d.apply(&[f1, f2], 0, json!({"why": "two faucets whose fees add up to more than 2^120"}));
        d.seal_next(Some(true));
        d.seal_next(Some(true));
    }
    // blocks that differ only in how a transaction spells "no signatures": every spelling is a different transaction and a
    // different block
    if net != NetID::Mainnet {
        let a = d.wal.address(CovKind::True);
        let f = d.faucet(vec![mk_coin(a, 90_000_000, Denom::Mel, &[])], 0, 203);
        if d.apply(&[f.clone()], 0, json!({"why": "coin for the signature-spelling twins"})) {
            d.seal_next(Some(false));
            let h = d.view().height;
            let c = (CoinID::new(f.hash_nosigs(), 0), CoinDataHeight { coin_data: f.outputs[0].clone(), height: BlockHeight(h.0 - 1) });
            let base = d.cur;
            if let Some(tx) = d.build(TxKind::Normal, &[c], vec![], 1, vec![], 500) {
                let spellings: Vec<(&str, Vec<Vec<u8>>)> = vec![("no entries", vec![]), ("one empty entry", vec![vec![]]), ("two empty entries", vec![vec![], vec![]]),
                                                                ("one zero byte", vec![vec![0]])];
                for (name, sg) in spellings {
                    let mut t = tx.clone();
                    t.sigs = sg.into_iter().map(|x| x.into()).collect();
                    let (nid, ok) = d.w.batch(base, &[t], 0, json!({"why": format!("signature spelling: {}", name)}));
                    if ok {
                        d.w.seal(nid, None, json!({"why": format!("block of the spelling: {}", name)}));
                    }
                }
            }
        }
    }
}

/// one random batch against the current state
pub fn step(d: &mut Driver) {
    let kind = d.r.gen_range(0..100);
    if kind < 35 {
        // a batch of 1..3 independent payments, possibly one mutated
        let n = d.r.gen_range(1..=3);
        let mut txs = vec![];
        let mut used: Vec<CoinID> = vec![];
        for _ in 0..n {
            if let Some(t) = d.random_pay() {
                if t.inputs.iter().any(|c| used.contains(c)) {
                    continue;
                }
                used.extend(t.inputs.iter().copied());
                txs.push(t);
            }
        }
        if txs.is_empty() {
            return;
        }
        let mut why = "pay".to_string();
        if d.r.gen_bool(0.45) {
            let i = d.r.gen_range(0..txs.len());
            let (m, name) = d.mutate(&txs[i].clone());
            txs[i] = m;
            why = format!("pay+{}", name);
        }
        let threads = [0usize, 1, 2, 4][d.r.gen_range(0..4)];
        d.apply(&txs, threads, json!({"why": why}));
    } else if kind < 55 {
        // dependent chain presented in every order (C02/C03)
        chain(d);
    } else if kind < 62 {
        // two spenders of the same coin
        if let Some(a) = d.random_pay() {
            let ins: Vec<(CoinID, CoinDataHeight)> = d.coins().into_iter().filter(|(c, _)| a.inputs.contains(c)).collect();
            if let Some(b) = d.build(TxKind::Normal, &ins, vec![], 1, vec![7], 0) {
                d.apply(&[a.clone(), b.clone()], 0, json!({"why": "conflict"}));
                d.apply(&[a.clone(), a.clone()], 0, json!({"why": "same-tx-twice"}));
                d.apply(&[a], 0, json!({"why": "conflict-first-only"}));
                d.apply(&[b], 0, json!({"why": "conflict-second-after-first"}));
            }
        }
    } else if kind < 68 {
        // replays
        if let Some(t) = d.old_txs.choose(&mut d.r).cloned() {
            d.apply(&[t], 0, json!({"why": "replay-old-tx"}));
        }
        if d.net != NetID::Mainnet || d.r.gen_bool(0.5) {
            if let Some(f) = d.faucets.choose(&mut d.r).cloned() {
                d.apply(&[f.clone()], 0, json!({"why": "replay-faucet"}));
                // the same faucet with other bytes in its (never checked) signature field: same transaction hash
                let mut g = f.clone();
                g.sigs.push(vec![d.r.gen::<u8>(); 3].into());
                d.apply(&[g.clone()], 0, json!({"why": "replay-faucet with different signatures"}));
                d.apply(&[f, g], 0, json!({"why": "faucet and its different-signature copy in one batch"}));
            }
        }
    } else if kind < 76 {
        // faucets (also tried on mainnet, where they must be rejected)
        let a = d.wal.random_address(&mut d.r);
        let salt: u8 = d.r.gen();
        let denom = [Denom::Mel, Denom::Sym, Denom::Erg, Denom::NewCustom][d.r.gen_range(0..4)];
        let nouts = d.r.gen_range(0..3);
        let outs: Vec<CoinData> = (0..nouts).map(|_| mk_coin(a, d.r.gen_range(0..1_000_000_000), denom, &[])).collect();
        let fee = if d.r.gen_bool(0.3) { d.r.gen_range(0..10000) } else { 0 };
        let f = d.faucet(outs, fee, salt);
        if d.r.gen_bool(0.3) {
            d.apply(&[f.clone(), f], 0, json!({"why": "faucet-twice-in-batch"}));
        } else {
            d.apply(&[f.clone()], 0, json!({"why": "faucet"}));
            if d.r.gen_bool(0.5) {
                d.apply(&[f.clone()], 0, json!({"why": "faucet-again-same-block"}));
            }
            if d.r.gen_bool(0.5) {
                let mut g = f;
                g.sigs.push(vec![1u8, 2].into());
                d.apply(&[g], 0, json!({"why": "faucet-again-same-block with different signatures"}));
            }
        }
    } else if kind < 96 {
        crate::swapdrive::pool_step(d);
    } else {
        // a transaction with many outputs / many inputs
        let sp = d.spendable();
        if let Some(m) = sp.iter().find(|(_, x)| x.coin_data.denom == Denom::Mel && x.coin_data.value.0 > 100_000_000) {
            let a = d.wal.address(CovKind::True);
            let n = [10usize, 100, 255, 256][d.r.gen_range(0..4)];
            let fixed: Vec<CoinData> = (0..n).map(|_| mk_coin(a, 1, Denom::Mel, &[])).collect();
            if let Some(t) = d.build(TxKind::Normal, &[m.clone()], fixed, 1, vec![], 0) {
                d.apply(&[t], 0, json!({"why": format!("many-outputs-{}", n)}));
            }
        }
    }
}

/// A -> B -> C spending each other's outputs, presented in every order from the same pre-state.
pub fn chain(d: &mut Driver) {
    let Some(a) = d.random_pay() else { return };
    let h = d.view().height;
    let mk_child = |d: &mut Driver, parent: &Transaction| -> Option<Transaction> {
        let id = parent.hash_nosigs();
        let ins: Vec<(CoinID, CoinDataHeight)> = parent
            .outputs
            .iter()
            .enumerate()
            .filter(|(_, o)| o.covhash != Address::coin_destroy() && o.denom == Denom::Mel && o.value.0 > 0)
            .filter(|(_, o)| matches!(d.wal.reg.get(&o.covhash), Some((_, k)) if !matches!(k, CovKind::False | CovKind::Garbage)))
            .take(1)
            .map(|(i, o)| (CoinID::new(id, i as u8), CoinDataHeight { coin_data: o.clone(), height: h }))
            .collect();
        if ins.is_empty() {
            return None;
        }
        d.build(TxKind::Normal, &ins, vec![], 1, vec![], 0)
    };
    let mut txs = vec![a.clone()];
    if let Some(b) = mk_child(d, &a) {
        if let Some(c) = mk_child(d, &b) {
            txs.push(b);
            txs.push(c);
        } else {
            txs.push(b);
        }
    }
    if d.r.gen_bool(0.3) {
        if let Some(p) = d.random_pay() {
            if !p.inputs.iter().any(|c| txs.iter().any(|t| t.inputs.contains(c))) {
                txs.push(p);
            }
        }
    }
    let mut ids: Vec<String> = txs.iter().map(|t| lj::hx(&t.hash_nosigs().0)).collect();
    ids.sort();
    let key = format!("C03|{}|{}", d.cur, ids.join(","));
    let perms = permutations(txs.len(), 8, &mut d.r);
    let pre = d.cur;
    let mut last = None;
    for (pi, p) in perms.iter().enumerate() {
        let batch: Vec<Transaction> = p.iter().map(|i| txs[*i].clone()).collect();
        let threads = [0usize, 1, 2, 16][pi % 4];
        let (nid, ok) = d.w.batch(pre, &batch, threads, json!({"why": "chain-permutation", "agreeKey": key, "perm": p}));
        if ok {
            last = Some(nid);
        }
    }
    // one at a time in dependency order
    let mut s = pre;
    let mut all = true;
    for t in txs.iter() {
        let (nid, ok) = d.w.batch(s, std::slice::from_ref(t), 0, json!({"why": "chain-one-at-a-time"}));
        if !ok {
            all = false;
            break;
        }
        s = nid;
    }
    if all {
        // the fold must reach the same state as the batch: agreement claim on the final state
        let (nid, _) = d.w.batch(s, &[], 0, json!({"why": "chain-fold-end", "agreeKey": key, "fold": true}));
        let _ = nid;
    }
    if let Some(nid) = last {
        d.cur = nid;
        d.block_batches.push(txs.clone());
        for t in txs {
            d.old_txs.push(t);
        }
    }
}

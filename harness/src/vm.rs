//! MelVM drivers: run programs on the real interpreter, record result / steps / weight / oracle facts.
use crate::js;
use ethnum::U256;
use melvm::{opcode::OpCode, Covenant, Value, VerifExecutor as Executor};
use rand::{rngs::StdRng, Rng, SeedableRng};
use serde_json::{json, Value as J};
use std::collections::HashMap;
use std::panic::{catch_unwind, AssertUnwindSafe};
use std::sync::atomic::Ordering;

pub const PCMOD: u64 = 1_000_003;

pub struct Facts {
    pub hash: Vec<(Vec<u8>, Vec<u8>)>,
    pub sig: Vec<(Vec<u8>, Vec<u8>, Vec<u8>, bool)>,
}

impl Facts {
    pub fn new() -> Self {
        Facts { hash: vec![], sig: vec![] }
    }
    pub fn to_json(&self) -> J {
        json!({
            "hash": self.hash.iter().map(|(a,b)| json!({"x":a,"h":b})).collect::<Vec<_>>(),
            "sig": self.sig.iter().map(|(m,p,s,ok)| json!({"msg":m,"pk":p,"sig":s,"ok":ok})).collect::<Vec<_>>(),
        })
    }
}

fn as_bytes(v: &Value, cap: usize) -> Option<Vec<u8>> {
    match v {
        Value::Bytes(b) if b.len() <= cap => Some(b.clone().into()),
        _ => None,
    }
}

/// Facts about the two cryptographic primitives, computed from the primitives themselves for the operands
/// the next instruction is about to consume.
fn collect_facts(op: &OpCode, stack: &[Value], facts: &mut Facts) {
    let n = stack.len();
    match op {
        OpCode::Hash(k) => {
            if n >= 1 {
                if let Some(b) = as_bytes(&stack[n - 1], (*k as usize).min(js::BIG_LIMIT)) {
                    let h = tmelcrypt::hash_single(&b).0.to_vec();
                    if !facts.hash.iter().any(|(x, _)| *x == b) {
                        facts.hash.push((b, h));
                    }
                }
            }
        }
        OpCode::SigEOk(k) => {
            if n >= 3 {
                let msg = as_bytes(&stack[n - 1], (*k as usize).min(js::BIG_LIMIT));
                let pk = as_bytes(&stack[n - 2], 32);
                let sig = as_bytes(&stack[n - 3], 64);
                if let (Some(msg), Some(pk), Some(sig)) = (msg, pk, sig) {
                    if pk.len() == 32 {
                        let ok = tmelcrypt::Ed25519PK::from_bytes(&pk)
                            .map(|p| p.verify(&msg, &sig))
                            .unwrap_or(false);
                        if !facts.sig.iter().any(|(m, p, s, _)| *m == msg && *p == pk && *s == sig) {
                            facts.sig.push((msg, pk, sig, ok));
                        }
                    }
                }
            }
        }
        _ => {}
    }
}

pub struct Stepped {
    pub res: J,
    pub steps: u64,
    pub pcsum: u64,
    pub maxdepth: usize,
    pub capped: bool,
    pub facts: Facts,
}

/// Single-steps the real executor (hook: `VerifExecutor`), counting instructions.
pub fn step_through(mut exec: Executor, ops: &[OpCode], cap: u64) -> Stepped {
    let mut facts = Facts::new();
    let mut steps = 0u64;
    let mut pcsum = 0u64;
    let mut maxdepth = 0usize;
    let mut capped = false;
    let r = catch_unwind(AssertUnwindSafe(|| {
        while exec.pc() < ops.len() {
            if steps >= cap {
                capped = true;
                return None;
            }
            collect_facts(&ops[exec.pc()], &exec.stack, &mut facts);
            steps += 1;
            exec.step()?;
            // digest over successful steps only
            pcsum = (pcsum + exec.pc() as u64) % PCMOD;
            maxdepth = maxdepth.max(exec.verif_loop_depth());
        }
        exec.stack.pop()
    }));
    let res = match r {
        Ok(Some(v)) => js::value(&v),
        Ok(None) => {
            if capped {
                json!({"t":"capped","v":[]})
            } else {
                js::fail_value()
            }
        }
        Err(_) => json!({"t":"panic","v":[]}),
    };
    Stepped { res, steps, pcsum, maxdepth, capped, facts }
}

pub fn weight_and_work(ops: &[OpCode]) -> (Option<u128>, u64) {
    let before = melvm::opcode::VERIF_WEIGH_WORK.load(Ordering::SeqCst);
    let cov = Covenant::from_ops(ops);
    let w = catch_unwind(AssertUnwindSafe(|| cov.weight())).ok();
    let after = melvm::opcode::VERIF_WEIGH_WORK.load(Ordering::SeqCst);
    (w, after - before)
}

fn heap_json(h: &HashMap<u16, Value>) -> J {
    let mut ks: Vec<_> = h.keys().copied().collect();
    ks.sort();
    J::Array(ks.iter().map(|k| json!([k, js::value(&h[k])])).collect())
}

/// One record for a program run in isolation with an explicit initial heap.
pub fn run_record(fam: &str, ops: &[OpCode], heap: HashMap<u16, Value>, cap: u64) -> J {
    // public path
    let cov = Covenant::from_ops(ops);
    let heapvec_ok = heap.is_empty() || (0..heap.len() as u16).all(|k| heap.contains_key(&k));
    let public = if heapvec_ok {
        let env: Vec<Value> = (0..heap.len() as u16).map(|k| heap[&k].clone()).collect();
        let t0 = std::time::Instant::now();
        let (r, total, peak) = crate::alloc::measure(|| catch_unwind(AssertUnwindSafe(|| cov.debug_execute(&env))));
        let dt = t0.elapsed().as_millis() as u64;
        Some((
            match r {
                Ok(Some(v)) => js::value(&v),
                Ok(None) => js::fail_value(),
                Err(_) => json!({"t":"panic","v":[]}),
            },
            dt,
            total,
            peak,
        ))
    } else {
        None
    };
    let st = step_through(Executor::new(ops.to_vec(), heap.clone()), ops, cap);
    let (w, work) = weight_and_work(ops);
    let mut rec = json!({
        "ev":"run","fam":fam,"ops":js::ops(ops),"n":ops.len(),"heap":heap_json(&heap),
        "res": st.res, "steps": st.steps, "pcsum": st.pcsum, "maxdepth": st.maxdepth, "capped": st.capped,
        "weight": w.map(js::limbs_u128).unwrap_or(json!([])), "wpanic": w.is_none(),
        "work": work, "facts": st.facts.to_json(),
    });
    if let Some((p, dt, total, peak)) = public {
        rec["pub"] = p;
        rec["ms"] = json!(dt);
        rec["alloc"] = json!(total);
        rec["peak"] = json!(peak);
    } else {
        rec["pub"] = rec["res"].clone();
        rec["ms"] = json!(0);
        rec["alloc"] = json!(0);
        rec["peak"] = json!(0);
    }
    rec["norun"] = json!(false);
    rec
}

// ------------------------------------------------------------------------------------------------
// program generators

fn small_int(r: &mut StdRng) -> U256 {
    match r.gen_range(0..20) {
        0..=7 => U256::from(r.gen_range(0u32..5)),
        8 => U256::from(32u32),
        9 => U256::from(255u32),
        10 => U256::from(256u32),
        11 => U256::from(65535u32),
        12 => U256::from(65536u32),
        13 => U256::MAX,
        14 => U256::MAX - U256::ONE,
        15 => U256::ONE << 255,
        16 => U256::from(r.gen::<u64>()),
        17 => U256::from(r.gen::<u128>()),
        _ => U256::from_words(r.gen::<u128>(), r.gen::<u128>()),
    }
}

fn rand_bytes(r: &mut StdRng, maxlen: usize) -> Vec<u8> {
    let n = r.gen_range(0..=maxlen);
    (0..n).map(|_| r.gen()).collect()
}

pub fn any_op(r: &mut StdRng, remaining: usize) -> OpCode {
    use OpCode::*;
    let k16 = |r: &mut StdRng| -> u16 {
        match r.gen_range(0..10) {
            0..=6 => r.gen_range(0..5),
            7 => 32,
            8 => 64,
            _ => r.gen(),
        }
    };
    match r.gen_range(0..49) {
        0 => Noop,
        1 => Add,
        2 => Sub,
        3 => Mul,
        4 => Div,
        5 => Rem,
        6 => Exp(match r.gen_range(0..4) { 0 => 0, 1 => 7, 2 => 255, _ => r.gen() }),
        7 => And,
        8 => Or,
        9 => Xor,
        10 => Not,
        11 => Eql,
        12 => Lt,
        13 => Gt,
        14 => Shl,
        15 => Shr,
        16 => Hash(k16(r)),
        17 => SigEOk(k16(r)),
        18 => Store,
        19 => Load,
        20 => StoreImm(r.gen_range(0..3)),
        21 => LoadImm(r.gen_range(0..3)),
        22 => VRef,
        23 => VAppend,
        24 => VEmpty,
        25 => VLength,
        26 => VSlice,
        27 => VSet,
        28 => VPush,
        29 => VCons,
        30 => BRef,
        31 => BAppend,
        32 => BEmpty,
        33 => BLength,
        34 => BSlice,
        35 => BSet,
        36 => BPush,
        37 => BCons,
        38 => Bez(r.gen_range(0..4)),
        39 => Bnz(r.gen_range(0..4)),
        40 => Jmp(r.gen_range(0..4)),
        41 => Loop(r.gen_range(0..4), r.gen_range(0..(remaining.min(6) as u16 + 2))),
        42 => ItoB,
        43 => BtoI,
        44 => TypeQ,
        45 => PushB(rand_bytes(r, 6)),
        46 => PushI(small_int(r)),
        47 => PushIC(small_int(r)),
        _ => Dup,
    }
}

pub fn gen_uniform(r: &mut StdRng) -> Vec<OpCode> {
    let n = r.gen_range(1..10);
    (0..n).map(|i| any_op(r, n - i - 1)).collect()
}

#[derive(Clone, Copy, PartialEq, Eq, Debug)]
enum T {
    I,
    B,
    V,
}

/// Type-aware generator: tracks an abstract stack so that most programs run deep.
/// Control flow makes the abstraction approximate; that is fine (both outcomes are interesting).
pub fn gen_typed(r: &mut StdRng) -> Vec<OpCode> {
    use OpCode::*;
    let n = r.gen_range(3..24);
    let mut out: Vec<OpCode> = vec![];
    let mut st: Vec<T> = vec![];
    let mut heap: Vec<Option<T>> = vec![None; 3];
    while out.len() < n {
        let top = st.last().copied();
        let top2 = if st.len() >= 2 { Some(st[st.len() - 2]) } else { None };
        let top3 = if st.len() >= 3 { Some(st[st.len() - 3]) } else { None };
        let choice = r.gen_range(0..100);
        // occasionally anything at all
        if choice < 4 {
            out.push(any_op(r, n - out.len()));
            st.clear();
            continue;
        }
        match (top, top2, top3) {
            (Some(T::I), Some(T::I), _) if choice < 40 => {
                let op = match r.gen_range(0..16) {
                    0 => Add, 1 => Sub, 2 => Mul, 3 => Div, 4 => Rem,
                    5 => Exp(match r.gen_range(0..4) { 0 => 0, 1 => 3, 2 => 255, _ => r.gen() }),
                    6 => And, 7 => Or, 8 => Xor, 9 => Eql, 10 => Lt, 11 => Gt, 12 => Shl, 13 => Shr,
                    14 => Add, _ => Sub,
                };
                out.push(op);
                st.pop();
                st.pop();
                st.push(T::I);
            }
            (Some(T::I), _, _) if choice < 48 => {
                match r.gen_range(0..5) {
                    0 => { out.push(Not); }
                    1 => { out.push(ItoB); st.pop(); st.push(T::B); }
                    2 => { out.push(TypeQ); }
                    3 => { out.push(Dup); st.push(T::I); }
                    _ => { let a = r.gen_range(0..3); out.push(StoreImm(a)); st.pop(); heap[a as usize] = Some(T::I); }
                }
            }
            (Some(T::B), Some(T::I), _) if choice < 55 => {
                // BPush: vec on top, val below
                out.push(BPush);
                st.pop();
                st.pop();
                st.push(T::B);
            }
            (Some(T::I), Some(T::B), _) if choice < 60 => {
                out.push(BCons);
                st.pop();
                st.pop();
                st.push(T::B);
            }
            (Some(T::B), Some(T::B), _) if choice < 60 => {
                out.push(BAppend);
                st.pop();
                st.pop();
                st.push(T::B);
            }
            (Some(T::B), _, _) if choice < 70 => match r.gen_range(0..7) {
                0 => { out.push(BLength); st.pop(); st.push(T::I); }
                1 => { out.push(Hash(match r.gen_range(0..3) { 0 => 2, 1 => 32, _ => 1000 })); }
                2 => { out.push(BtoI); st.pop(); st.push(T::I); }
                3 => { out.push(Dup); st.push(T::B); }
                4 => {
                    // BRef: vec top, idx below -> need to push idx first; emit idx then re-push: use pattern  PushI idx ; <swap not available> so build: StoreImm 2; PushI idx; LoadImm 2; BRef
                    out.push(StoreImm(2)); out.push(PushIC(U256::from(r.gen_range(0u32..4)))); out.push(LoadImm(2)); out.push(BRef);
                    heap[2] = Some(T::B);
                    st.pop(); st.push(T::I);
                }
                5 => {
                    // BSlice: vec top, begin, end
                    out.push(StoreImm(2)); out.push(PushIC(U256::from(r.gen_range(0u32..6)))); out.push(PushIC(U256::from(r.gen_range(0u32..4)))); out.push(LoadImm(2)); out.push(BSlice);
                    heap[2] = Some(T::B);
                }
                _ => {
                    // BSet: vec top, idx, value
                    out.push(StoreImm(2)); out.push(PushI(small_int(r))); out.push(PushIC(U256::from(r.gen_range(0u32..4)))); out.push(LoadImm(2)); out.push(BSet);
                    heap[2] = Some(T::B);
                }
            },
            (Some(T::V), Some(T::V), _) if choice < 55 => {
                out.push(VAppend);
                st.pop();
                st.pop();
                st.push(T::V);
            }
            (Some(T::V), Some(_), _) if choice < 68 => {
                out.push(VPush);
                st.pop();
                st.pop();
                st.push(T::V);
            }
            (Some(_), Some(T::V), _) if choice < 68 => {
                out.push(VCons);
                st.pop();
                st.pop();
                st.push(T::V);
            }
            (Some(T::V), _, _) if choice < 80 => match r.gen_range(0..5) {
                0 => { out.push(VLength); st.pop(); st.push(T::I); }
                1 => { out.push(Dup); st.push(T::V); }
                2 => {
                    out.push(StoreImm(2)); out.push(PushIC(U256::from(r.gen_range(0u32..4)))); out.push(LoadImm(2)); out.push(VRef);
                    heap[2] = Some(T::V);
                    st.clear(); // element type unknown
                }
                3 => {
                    out.push(StoreImm(2)); out.push(PushIC(U256::from(r.gen_range(0u32..6)))); out.push(PushIC(U256::from(r.gen_range(0u32..4)))); out.push(LoadImm(2)); out.push(VSlice);
                    heap[2] = Some(T::V);
                }
                _ => {
                    out.push(StoreImm(2)); out.push(PushI(small_int(r))); out.push(PushIC(U256::from(r.gen_range(0u32..4)))); out.push(LoadImm(2)); out.push(VSet);
                    heap[2] = Some(T::V);
                }
            },
            _ => {
                // producers and control flow
                match r.gen_range(0..22) {
                    0..=5 => { out.push(if r.gen() { PushI(small_int(r)) } else { PushIC(small_int(r)) }); st.push(T::I); }
                    6..=7 => { out.push(PushB(rand_bytes(r, 5))); st.push(T::B); }
                    8 => { out.push(PushB((0..32).map(|_| r.gen()).collect())); st.push(T::B); }
                    9 => { out.push(BEmpty); st.push(T::B); }
                    10..=11 => { out.push(VEmpty); st.push(T::V); }
                    12 => {
                        let a = r.gen_range(0..3usize);
                        if let Some(t) = heap[a] { out.push(LoadImm(a as u16)); st.push(t); } else { out.push(Noop); }
                    }
                    13 => {
                        // Store via stack address
                        if let Some(t) = top { let a = r.gen_range(0..2u32); out.push(PushIC(U256::from(a))); out.push(Store); st.pop(); heap[a as usize] = Some(t); } else { out.push(Noop); }
                    }
                    14 => {
                        let a = r.gen_range(0..3usize);
                        if let Some(t) = heap[a] { out.push(PushIC(U256::from(a as u32))); out.push(Load); st.push(t); } else { out.push(Noop); }
                    }
                    15..=17 => {
                        let m = r.gen_range(0..6u16);
                        let it = r.gen_range(0..4u16);
                        out.push(Loop(it, m));
                    }
                    18 => { if top.is_some() { out.push(Bez(r.gen_range(0..4))); st.pop(); } else { out.push(Jmp(r.gen_range(0..3))); } }
                    19 => { if top.is_some() { out.push(Bnz(r.gen_range(0..4))); st.pop(); } else { out.push(Jmp(r.gen_range(0..3))); } }
                    20 => { out.push(Jmp(r.gen_range(0..3))); }
                    _ => { out.push(Noop); }
                }
            }
        }
    }
    out
}

/// Loop- and jump-heavy shapes.
pub fn gen_loopy(r: &mut StdRng) -> Vec<OpCode> {
    use OpCode::*;
    let mut out = vec![PushIC(U256::from(r.gen_range(0u32..3)))];
    let n = r.gen_range(4..16);
    while out.len() < n {
        match r.gen_range(0..12) {
            0..=3 => out.push(Loop(r.gen_range(0..5), r.gen_range(0..5))),
            4 => out.push(Jmp(r.gen_range(0..4))),
            5 => { out.push(Dup); out.push(Bez(r.gen_range(0..3))); }
            6 => { out.push(Dup); out.push(Bnz(r.gen_range(0..3))); }
            7..=8 => { out.push(PushIC(U256::from(r.gen_range(0u32..3)))); out.push(Add); }
            9 => { out.push(Dup); out.push(Mul); }
            10 => out.push(Noop),
            _ => { out.push(PushIC(U256::ONE)); out.push(Sub); }
        }
    }
    out
}

/// Signature-checking shapes with real keys.
pub fn gen_sig(r: &mut StdRng) -> Vec<OpCode> {
    use OpCode::*;
    let (pk, sk) = tmelcrypt::ed25519_keygen();
    let msg: Vec<u8> = (0..r.gen_range(0..40)).map(|_| r.gen()).collect();
    let mut sig = sk.sign(&msg);
    let mut pkb = pk.0.to_vec();
    let mut msgb = msg.clone();
    let n: u16 = match r.gen_range(0..4) { 0 => msg.len() as u16, 1 => (msg.len() as u16).saturating_sub(1), 2 => 32, _ => 1000 };
    match r.gen_range(0..8) {
        0 => sig[0] ^= 1,
        1 => sig.push(0),
        2 => { sig.pop(); }
        3 => { pkb.pop(); }
        4 => pkb.push(7),
        5 => { if !msgb.is_empty() { msgb[0] ^= 1 } }
        _ => {}
    }
    let mut v = vec![PushB(sig), PushB(pkb), PushB(msgb), SigEOk(n)];
    if r.gen_bool(0.2) {
        v.swap(0, 1);
    }
    if r.gen_bool(0.1) {
        v[1] = PushI(small_int(r));
    }
    v
}

/// Hash shapes.
pub fn gen_hash(r: &mut StdRng) -> Vec<OpCode> {
    use OpCode::*;
    let b = rand_bytes(r, 40);
    let n: u16 = match r.gen_range(0..4) { 0 => b.len() as u16, 1 => (b.len() as u16).saturating_sub(1), 2 => 0, _ => 500 };
    let mut v = vec![PushB(b), Hash(n)];
    if r.gen_bool(0.5) {
        v.push(Dup);
        v.push(Hash(32));
        v.push(BAppend);
        v.push(BLength);
    }
    v
}

// ---- C11 families: adversarial cost shapes (sizes chosen so that the unchanged tree finishes) ----
pub fn fam_nested_loops(k: usize, iters: u16, body: u16) -> Vec<OpCode> {
    let mut v = vec![];
    for _ in 0..k {
        v.push(OpCode::Loop(iters, body));
    }
    v.push(OpCode::PushIC(U256::ONE));
    v
}

pub fn fam_doubling(n: u16, consumer: Option<OpCode>, vecs: bool) -> Vec<OpCode> {
    use OpCode::*;
    // VPush takes the vector on top and the item below it
    let mut v = if vecs { vec![PushIC(U256::ONE), VEmpty, VPush] } else { vec![PushB(vec![7u8; 32])] };
    v.push(Loop(n, 2));
    v.push(Dup);
    v.push(if vecs { VAppend } else { BAppend });
    if let Some(c) = consumer {
        v.push(c);
    }
    v.push(PushIC(U256::ONE));
    v
}

pub fn gen_random_seeded(seed: u64) -> StdRng {
    StdRng::seed_from_u64(seed)
}

pub fn rand_heap(r: &mut StdRng) -> HashMap<u16, Value> {
    let mut h = HashMap::new();
    if r.gen_bool(0.6) {
        return h;
    }
    let n = r.gen_range(1..4u16);
    for k in 0..n {
        let v = match r.gen_range(0..3) {
            0 => Value::Int(small_int(r)),
            1 => Value::from_bytes(&rand_bytes(r, 6)),
            _ => Value::Vector(vec![Value::Int(small_int(r)), Value::from_bytes(&rand_bytes(r, 3))].into()),
        };
        h.insert(k, v);
    }
    h
}

/// Adversarial cost shapes (C11).  `norun` marks records whose data is too large for the specification to
/// recompute by content; for those only weight / step / work / allocation bounds are judged.
pub fn cost_families(out: &mut crate::Out, thorough: bool, seed: u64) {
    use OpCode::*;
    let mut r = gen_random_seeded(seed);
    let mut put = |out: &mut crate::Out, fam: &str, ops: Vec<OpCode>, norun: bool| {
        let mut rec = run_record(fam, &ops, Default::default(), 3_000_000);
        rec["norun"] = json!(norun);
        out.put(rec);
    };
    // nested loops: zero-iteration with maximal body, and genuinely nested bodies
    let kmax = if thorough { 18 } else { 14 };
    for k in 1..=kmax {
        put(out, "cost-nested0", fam_nested_loops(k, 0, 65535), false);
        put(out, "cost-nested1", fam_nested_loops(k, 1, 65535), false);
        // properly nested: Loop(2, k-i) ... body
        if k <= (if thorough { 14 } else { 12 }) {
            let mut v = vec![];
            for i in 0..k {
                v.push(Loop(2, (k - i) as u16));
            }
            v.push(PushIC(U256::ONE));
            put(out, "cost-nested2", v, false);
        }
    }
    // bodies that overrun the program / the enclosing loop
    for m in [1u16, 2, 5, 100, 65535] {
        put(out, "cost-overrun", vec![PushIC(U256::ONE), Loop(3, m), PushIC(U256::ONE), Add], false);
        put(out, "cost-overrun", vec![PushIC(U256::ONE), Loop(2, 3), Loop(2, m), PushIC(U256::ONE), Add, Noop], false);
    }
    // jump chains
    for n in [10usize, 200, 1000] {
        put(out, "cost-jumps", std::iter::repeat(Jmp(0)).take(n).chain([PushIC(U256::ONE)]).collect(), false);
        let mut v: Vec<OpCode> = vec![];
        for _ in 0..n / 2 {
            v.push(Jmp(1));
            v.push(Noop);
        }
        v.push(PushIC(U256::ONE));
        put(out, "cost-jumps", v, false);
    }
    // long loops of cheap instructions: steps close to weight
    for (it, body) in [(if thorough { 65535u16 } else { 20000 }, 1u16), (400, 50), (255, 255)] {
        let mut v = vec![PushIC(U256::ZERO), Loop(it, body)];
        for _ in 0..body {
            v.push(Noop);
        }
        put(out, "cost-longloop", v, false);
    }
    // maximal exponentiation
    put(out, "cost-exp", vec![PushI(U256::MAX), PushI(U256::from(3u32)), Exp(255)], false);
    put(out, "cost-exp", vec![PushIC(U256::ZERO), Loop(if thorough { 200 } else { 30 }, 4), PushI(U256::MAX), PushI(U256::from(3u32)), Exp(255), Add], false);
    // data doubling followed by every consuming opcode
    let consumers_b: Vec<Option<OpCode>> = vec![None, Some(BLength), Some(BtoI), Some(Hash(32)), Some(Hash(65535)), Some(TypeQ), Some(Dup), Some(ItoB),
        Some(Not), Some(VLength), Some(BEmpty), Some(VEmpty)];
    let consumers_v: Vec<Option<OpCode>> = vec![None, Some(VLength), Some(TypeQ), Some(Dup), Some(BLength), Some(BtoI), Some(Hash(65535))];
    let small = [4u16, 8];
    let big: Vec<u16> = if thorough { vec![12, 16, 20] } else { vec![12, 17] };
    for n in small.iter().copied() {
        for c in consumers_b.iter() {
            put(out, "cost-doubling-b", fam_doubling(n, c.clone(), false), false);
        }
        for c in consumers_v.iter() {
            put(out, "cost-doubling-v", fam_doubling(n, c.clone(), true), false);
        }
    }
    for n in big.iter().copied() {
        for c in consumers_b.iter() {
            put(out, "cost-doubling-b", fam_doubling(n, c.clone(), false), true);
        }
        for c in consumers_v.iter() {
            put(out, "cost-doubling-v", fam_doubling(n, c.clone(), true), true);
        }
        // consumers with operands: slices, refs, sets, cons, push on the doubled value
        let pre = |vecs: bool| fam_doubling(n, None, vecs)[..fam_doubling(n, None, vecs).len() - 1].to_vec();
        for vecs in [false, true] {
            let p = pre(vecs);
            let tail_sets: Vec<Vec<OpCode>> = vec![
                vec![StoreImm(0), PushIC(U256::from(5u32)), PushIC(U256::from(1u32)), LoadImm(0), if vecs { VSlice } else { BSlice }],
                vec![StoreImm(0), PushIC(U256::from(3u32)), LoadImm(0), if vecs { VRef } else { BRef }],
                vec![StoreImm(0), PushIC(U256::from(9u32)), PushIC(U256::from(3u32)), LoadImm(0), if vecs { VSet } else { BSet }],
                vec![PushIC(U256::from(9u32)), if vecs { VCons } else { BCons }],
                vec![StoreImm(0), PushIC(U256::from(9u32)), LoadImm(0), if vecs { VPush } else { BPush }],
                vec![Dup, if vecs { VAppend } else { BAppend }, if vecs { VLength } else { BLength }],
            ];
            for t in tail_sets {
                let mut v = p.clone();
                v.extend(t);
                v.push(PushIC(U256::ONE));
                put(out, if vecs { "cost-doubling-v" } else { "cost-doubling-b" }, v, true);
            }
        }
    }
    // containers longer than 65536 elements (one element doubled 17 times: 131072), recomputed by the specification: element indices
    // and slice bounds are 16-bit whatever the container holds (65535 is the last index that can succeed)
    for vecs in [false, true] {
        let mut p: Vec<OpCode> = if vecs { vec![PushIC(U256::from(7u32)), VEmpty, VPush] } else { vec![PushB(vec![7u8])] };
        p.extend([Loop(17, 2), Dup, if vecs { VAppend } else { BAppend }, StoreImm(0)]);
        for idx in [65534u32, 65535, 65536, 65537, 100_000, 131_071, 131_072] {
            let mut v = p.clone();
            v.extend([PushI(U256::from(idx)), LoadImm(0), if vecs { VRef } else { BRef }]);
            put(out, "cost-long-index", v, false);
            let mut v = p.clone();
            v.extend([PushIC(U256::from(9u32)), PushI(U256::from(idx)), LoadImm(0), if vecs { VSet } else { BSet }, if vecs { VLength } else { BLength }]);
            put(out, "cost-long-index", v, false);
        }
        for (b, e) in [(65534u32, 65535u32), (65535, 65536), (65536, 70_000), (0, 65536), (0, 131_072), (70_000, 60_000)] {
            let mut v = p.clone();
            v.extend([PushI(U256::from(e)), PushI(U256::from(b)), LoadImm(0), if vecs { VSlice } else { BSlice }, if vecs { VLength } else { BLength }]);
            put(out, "cost-long-index", v, false);
        }
    }
    // a doubled byte string (32 * 2^n bytes by structural sharing) as each operand of the signature check and of the bounded
    // hash: every length test must come before the operand is flattened
    {
        let (pk, sk) = crate::keys::from_seed(&[9u8; 32]);
        let msg = vec![1u8, 2, 3];
        let sig = sk.sign(&msg);
        for n in if thorough { vec![10u16, 20, 24, 26] } else { vec![10u16, 24] } {
            let dbl = |v: &mut Vec<OpCode>| { v.push(PushB(vec![7u8; 32])); v.push(Loop(n, 2)); v.push(Dup); v.push(BAppend); };
            for pos in 0..3 {
                for lim in [3u16, 65535] {
                    let mut v = vec![];
                    // stack order: signature, public key, message (on top)
                    if pos == 0 { dbl(&mut v) } else { v.push(PushB(sig.clone())) }
                    if pos == 1 { dbl(&mut v) } else { v.push(PushB(pk.0.to_vec())) }
                    if pos == 2 { dbl(&mut v) } else { v.push(PushB(msg.clone())) }
                    v.push(SigEOk(lim));
                    v.push(PushIC(U256::ONE));
                    put(out, "cost-doubling-sigeok", v, true);
                }
            }
            for lim in [0u16, 32, 65535] {
                let mut v = vec![];
                dbl(&mut v);
                v.push(Hash(lim));
                v.push(PushIC(U256::ONE));
                put(out, "cost-doubling-hash", v, true);
            }
        }
    }
    // lengths beyond what a usize can hold: 2^59 .. 2^66 bytes through structural sharing (never materialised)
    for n in [58u16, 59, 60, 62, 64, 66, 100] {
        for vecs in [false, true] {
            let mut v = fam_doubling(n, Some(if vecs { VLength } else { BLength }), vecs);
            v.pop();
            put(out, "cost-length-overflow", v, true);
        }
    }
    // deeply nested loops in a covenant as large as a transaction can carry (child process: a stack overflow aborts)
    for k in if thorough { vec![1000usize, 5000, 20000, 50000, 200000] } else { vec![1000usize, 20000, 60000] } {
        out.put(deep_record(k, false));
    }
    // very long covenants without any nesting
    for k in if thorough { vec![10_000usize, 100_000, 1_000_000, 4_000_000] } else { vec![10_000usize, 100_000, 1_000_000] } {
        out.put(deep_record(k, true));
    }
    // vectors nested a*b deep, built by VEmpty; Loop(a,3){Loop(b,2){VEmpty; VPush}} (child process: recursion in clone / drop may exhaust the stack)
    for (a, b) in if thorough { vec![(1u16, 100u16), (1, 1000), (1, 5000), (1, 20000), (1, 65535), (4, 65535)] } else { vec![(1u16, 100u16), (1, 1000), (1, 20000), (2, 65535)] } {
        out.put(deepval_record(a, b));
    }
    // honest programs for calibration of the cost model
    for _ in 0..200 {
        let ops = gen_typed(&mut r);
        put(out, "cost-honest", ops, false);
    }
}


/// Opcode table family: every operator on a grid of boundary operands, in both operand orders, and every index /
/// slice class on small byte strings and vectors.  Deterministic (no randomness).
pub fn optable(out: &mut crate::Out) {
    use OpCode::*;
    let ints: Vec<U256> = vec![U256::ZERO, U256::ONE, U256::from(2u32), U256::from(3u32), U256::from(7u32), U256::from(255u32), U256::from(256u32), U256::from(65535u32),
                               U256::from(65536u32), U256::from(u64::MAX), U256::from(u128::MAX), U256::ONE << 128, U256::ONE << 255, U256::MAX - U256::ONE, U256::MAX];
    let binops: Vec<OpCode> = vec![Add, Sub, Mul, Div, Rem, And, Or, Xor, Eql, Lt, Gt, Shl, Shr];
    for op in binops.iter() {
        for a in ints.iter() {
            for b in ints.iter() {
                out.put(run_record("optable-int", &[PushI(*a), PushI(*b), op.clone()], Default::default(), 1000));
            }
        }
    }
    for k in [0u8, 1, 2, 7, 8, 127, 254, 255] {
        for b in [U256::ZERO, U256::ONE, U256::from(2u32), U256::from(3u32), U256::MAX] {
            for e in [U256::ZERO, U256::ONE, U256::from(2u32), U256::from(3u32), U256::from(127u32), U256::from(128u32), U256::from(255u32), U256::from(256u32), U256::from(257u32), U256::ONE << 127,
                      U256::ONE << 254, U256::ONE << 255, U256::MAX] {
                // the exponent is below the base on the stack
                out.put(run_record("optable-exp", &[PushI(e), PushI(b), Exp(k)], Default::default(), 1000));
            }
        }
    }
    for a in ints.iter() {
        out.put(run_record("optable-int", &[PushI(*a), Not], Default::default(), 100));
        out.put(run_record("optable-int", &[PushI(*a), ItoB, BtoI], Default::default(), 100));
        out.put(run_record("optable-int", &[PushI(*a), ItoB, BLength], Default::default(), 100));
        out.put(run_record("optable-int", &[PushI(*a), TypeQ], Default::default(), 100));
        out.put(run_record("optable-int", &[PushIC(U256::from(5u32)), PushI(*a), Bez(1), PushIC(U256::from(6u32))], Default::default(), 100));
        out.put(run_record("optable-int", &[PushIC(U256::from(5u32)), PushI(*a), Bnz(1), PushIC(U256::from(6u32))], Default::default(), 100));
        out.put(run_record("optable-int", &[PushIC(U256::from(9u32)), PushI(*a), Store, PushI(*a), Load], Default::default(), 100));
    }
    // byte strings and vectors of known content; every index / slice class
    let bytes5 = PushB(vec![10, 11, 12, 13, 14]);
    let idx: Vec<u32> = vec![0, 1, 2, 4, 5, 6, 255, 65535, 65536];
    let mkvec = |n: u32| -> Vec<OpCode> {
        let mut v = vec![VEmpty];
        for i in 0..n {
            v.insert(0, PushIC(U256::from(100 + i)));
        }
        // pushes below the vector: stack = [104,103,...,100, VEmpty]; VPush takes vector on top and item below
        for _ in 0..n {
            v.push(VPush);
        }
        v
    };
    for i in idx.iter() {
        out.put(run_record("optable-bytes", &[PushI(U256::from(*i)), bytes5.clone(), BRef], Default::default(), 100));
        out.put(run_record("optable-bytes", &[PushI(U256::from(77u32)), PushI(U256::from(*i)), bytes5.clone(), BSet], Default::default(), 100));
        let mut p = vec![PushI(U256::from(*i))];
        p.extend(mkvec(5));
        p.push(VRef);
        out.put(run_record("optable-vec", &p, Default::default(), 100));
        let mut p = vec![PushB(vec![1, 2]), PushI(U256::from(*i))];
        p.extend(mkvec(5));
        p.push(VSet);
        out.put(run_record("optable-vec", &p, Default::default(), 100));
        for j in idx.iter() {
            // slice(begin = j, end = i): stack needs vec on top, then begin, then end
            out.put(run_record("optable-bytes", &[PushI(U256::from(*i)), PushI(U256::from(*j)), bytes5.clone(), BSlice], Default::default(), 100));
            let mut p = vec![PushI(U256::from(*i)), PushI(U256::from(*j))];
            p.extend(mkvec(5));
            p.push(VSlice);
            out.put(run_record("optable-vec", &p, Default::default(), 100));
        }
    }
    for v in [U256::ZERO, U256::from(255u32), U256::from(256u32), U256::from(511u32), U256::MAX] {
        out.put(run_record("optable-bytes", &[PushI(v), bytes5.clone(), BPush], Default::default(), 100));
        out.put(run_record("optable-bytes", &[bytes5.clone(), PushI(v), BCons], Default::default(), 100));
    }
    out.put(run_record("optable-bytes", &[PushB(vec![1, 2]), bytes5.clone(), BAppend], Default::default(), 100));
    out.put(run_record("optable-bytes", &[bytes5.clone(), PushB(vec![1, 2]), BAppend], Default::default(), 100));
    let mut p = mkvec(2);
    p.extend(mkvec(3));
    p.push(VAppend);
    out.put(run_record("optable-vec", &p, Default::default(), 100));
    let mut p = vec![PushIC(U256::from(9u32))];
    p.extend(mkvec(3));
    p.push(VPush);
    out.put(run_record("optable-vec", &p, Default::default(), 100));
    let mut p = mkvec(3);
    p.push(PushIC(U256::from(9u32)));
    p.push(VCons);
    out.put(run_record("optable-vec", &p, Default::default(), 100));
    let mut p = mkvec(4);
    p.push(VLength);
    out.put(run_record("optable-vec", &p, Default::default(), 100));
    // loops: counted exactly; nesting; bodies that end exactly at the enclosing end; jumps relative to the right pc
    for n in 0..5u16 {
        for m in 0..4u16 {
            let mut p = vec![PushIC(U256::ZERO), Loop(n, m)];
            for _ in 0..3 {
                p.push(PushIC(U256::ONE));
                p.push(Add);
            }
            out.put(run_record("optable-loop", &p, Default::default(), 1000));
            let mut q = vec![PushIC(U256::ZERO), Loop(2, m + 1), Loop(n, m)];
            for _ in 0..2 {
                q.push(PushIC(U256::ONE));
                q.push(Add);
            }
            out.put(run_record("optable-loop", &q, Default::default(), 1000));
        }
    }
    for k in 0..5u16 {
        let body = vec![PushIC(U256::from(1u32)), PushIC(U256::from(2u32)), PushIC(U256::from(3u32)), PushIC(U256::from(4u32))];
        for j in [Jmp(k), Bez(k), Bnz(k)] {
            let mut p = vec![PushIC(U256::ZERO), PushIC(U256::ZERO), j.clone()];
            p.extend(body.clone());
            out.put(run_record("optable-jump", &p, Default::default(), 100));
            let mut p = vec![PushIC(U256::ZERO), PushIC(U256::ONE), j];
            p.extend(body.clone());
            out.put(run_record("optable-jump", &p, Default::default(), 100));
        }
    }
    // hash / signature length guards
    for n in [0u16, 4, 5, 6, 31, 32, 33] {
        out.put(run_record("optable-crypto", &[bytes5.clone(), Hash(n)], Default::default(), 100));
        out.put(run_record("optable-crypto", &[PushB(vec![0; 32]), Hash(n)], Default::default(), 100));
    }
}


/// Deep nesting: k nested `Loop(0, 65535)` weighed through the public path (from_bytes -> weight) on a thread with a
/// 2 MiB stack (what a worker thread of a validator has), in a CHILD process, because exhausting the stack aborts the process.
pub fn deep_child(k: usize, flat: bool) {
    let mut bytes: Vec<u8> = Vec::with_capacity(5 * k + 3);
    for _ in 0..k {
        // flat: k Noop instructions (weight 1 each); nested: k loop headers, each enclosing everything that follows
        if flat {
            bytes.push(0x09);
        } else {
            bytes.extend_from_slice(&[0xb0, 0x00, 0x00, 0xff, 0xff]);
        }
    }
    bytes.extend_from_slice(&[0xf2, 0x01, 0x01]);
    let h = std::thread::Builder::new().stack_size(2 * 1024 * 1024).spawn(move || {
        let before = melvm::opcode::VERIF_WEIGH_WORK.load(Ordering::SeqCst);
        let w = melvm::covenant_weight_from_bytes(&bytes);
        (w, melvm::opcode::VERIF_WEIGH_WORK.load(Ordering::SeqCst) - before)
    }).unwrap();
    match h.join() {
        Ok((w, work)) => println!("{}", json!({"weight": js::limbs_u128(w), "work": js::limbs_u64(work)})),
        Err(_) => println!("{}", json!({"panic": true})),
    }
}

pub fn deep_record(k: usize, flat: bool) -> J {
    let exe = std::env::current_exe().unwrap();
    let t0 = std::time::Instant::now();
    // the child is given 15 minutes (a hang is a verdict, not a stuck check)
    let child = std::process::Command::new(exe).args(["deepchild", "--k", &k.to_string(), "--flat", if flat { "1" } else { "0" }])
        .stdout(std::process::Stdio::piped()).stderr(std::process::Stdio::null()).spawn();
    let mut status = "spawn-error";
    let mut weight = json!([]);
    let mut work = json!([]);
    if let Ok(mut c) = child {
        loop {
            match c.try_wait() {
                Ok(Some(st)) => {
                    let mut buf = Vec::new();
                    if let Some(mut o) = c.stdout.take() {
                        use std::io::Read;
                        let _ = o.read_to_end(&mut buf);
                    }
                    if st.success() {
                        let v: J = serde_json::from_slice(buf.split(|c| *c == b'\n').next().unwrap_or(b"{}")).unwrap_or(json!({}));
                        if v.get("weight").is_some() {
                            status = "ok";
                            weight = v["weight"].clone();
                            work = v["work"].clone();
                        } else {
                            status = "panic";
                        }
                    } else {
                        status = "abort";
                    }
                    break;
                }
                Ok(None) => {
                    if t0.elapsed().as_secs() > 900 {
                        let _ = c.kill();
                        let _ = c.wait();
                        status = "timeout";
                        break;
                    }
                    std::thread::sleep(std::time::Duration::from_millis(5));
                }
                Err(_) => break,
            }
        }
    }
    let ms = t0.elapsed().as_millis() as u64;
    json!({"ev": "deep", "fam": if flat { "cost-long-flat" } else { "cost-deep-nesting" }, "k": k, "bytes": if flat { k + 3 } else { 5 * k + 3 }, "status": status, "weight": weight,
           "work": work, "ms": ms})
}


/// Deeply nested VALUES: VEmpty; Loop(a, 3){ Loop(b, 2){ VEmpty; VPush } } builds a vector nested a*b deep; run (and dropped)
/// on a 2 MiB thread in a child process.
pub fn deepval_child(a: u16, b: u16) {
    use OpCode::*;
    let ops = vec![VEmpty, Loop(a, 3), Loop(b, 2), VEmpty, VPush, PushIC(U256::ONE)];
    let h = std::thread::Builder::new().stack_size(2 * 1024 * 1024).spawn(move || {
        let c = Covenant::from_ops(&ops);
        let w = c.weight();
        let r = c.debug_execute(&[]);
        (w, r.is_some())
    }).unwrap();
    match h.join() {
        Ok((w, ok)) => println!("{}", json!({"weight": js::limbs_u128(w), "ok": ok})),
        Err(_) => println!("{}", json!({"panic": true})),
    }
}


pub fn deepval_record(a: u16, b: u16) -> J {
    let exe = std::env::current_exe().unwrap();
    let out = std::process::Command::new(exe).args(["deepvalchild", "--a", &a.to_string(), "--b", &b.to_string()]).output();
    let status = match out {
        Ok(o) if o.status.success() => {
            let v: J = serde_json::from_slice(o.stdout.split(|c| *c == b'\n').next().unwrap_or(b"{}")).unwrap_or(json!({}));
            if v.get("ok").is_some() { "ok" } else { "panic" }
        }
        Ok(_) => "abort",
        Err(_) => "spawn-error",
    };
    json!({"ev": "deepval", "fam": "cost-deep-values", "a": a, "b": b, "depth": a as u64 * b as u64, "status": status})
}

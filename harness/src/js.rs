//! JSON encoding helpers shared by all drivers. No semantics here: fields are serialised as they are.
use ethnum::U256;
use melvm::{opcode::OpCode, Value};
use serde_json::{json, Value as J};

/// little-endian base-256 limbs without most-significant zeros (the BigNat representation of the spec)
pub fn limbs_u128(x: u128) -> J {
    let mut v: Vec<u8> = x.to_le_bytes().to_vec();
    while v.last() == Some(&0) {
        v.pop();
    }
    json!(v)
}

pub fn limbs_u256(x: U256) -> J {
    let mut v: Vec<u8> = x.to_le_bytes().to_vec();
    while v.last() == Some(&0) {
        v.pop();
    }
    json!(v)
}

pub fn limbs_u64(x: u64) -> J {
    limbs_u128(x as u128)
}

pub fn bytes(b: &[u8]) -> J {
    json!(b.to_vec())
}

pub fn hexs(b: &[u8]) -> J {
    json!(hex::encode(b))
}

pub const BIG_LIMIT: usize = 1 << 14;

pub fn value(v: &Value) -> J {
    match v {
        Value::Int(i) => json!({"t":"i","v":limbs_u256(*i)}),
        Value::Bytes(b) => {
            if b.len() > BIG_LIMIT {
                json!({"t":"big","v":[]})
            } else {
                let bb: Vec<u8> = b.clone().into();
                json!({"t":"b","v":bb})
            }
        }
        Value::Vector(vs) => {
            if vs.len() > BIG_LIMIT {
                json!({"t":"big","v":[]})
            } else {
                let vv: Vec<Value> = vs.clone().into();
                json!({"t":"v","v":vv.iter().map(value).collect::<Vec<_>>()})
            }
        }
    }
}

pub fn fail_value() -> J {
    json!({"t":"fail","v":[]})
}

pub fn opcode(o: &OpCode) -> J {
    use OpCode::*;
    match o {
        Noop => json!({"op":"Noop"}),
        Add => json!({"op":"Add"}),
        Sub => json!({"op":"Sub"}),
        Mul => json!({"op":"Mul"}),
        Div => json!({"op":"Div"}),
        Rem => json!({"op":"Rem"}),
        Exp(k) => json!({"op":"Exp","k":k}),
        And => json!({"op":"And"}),
        Or => json!({"op":"Or"}),
        Xor => json!({"op":"Xor"}),
        Not => json!({"op":"Not"}),
        Eql => json!({"op":"Eql"}),
        Lt => json!({"op":"Lt"}),
        Gt => json!({"op":"Gt"}),
        Shl => json!({"op":"Shl"}),
        Shr => json!({"op":"Shr"}),
        Hash(n) => json!({"op":"Hash","n":n}),
        SigEOk(n) => json!({"op":"SigEOk","n":n}),
        Store => json!({"op":"Store"}),
        Load => json!({"op":"Load"}),
        StoreImm(a) => json!({"op":"StoreImm","a":a}),
        LoadImm(a) => json!({"op":"LoadImm","a":a}),
        VRef => json!({"op":"VRef"}),
        VAppend => json!({"op":"VAppend"}),
        VEmpty => json!({"op":"VEmpty"}),
        VLength => json!({"op":"VLength"}),
        VSlice => json!({"op":"VSlice"}),
        VSet => json!({"op":"VSet"}),
        VPush => json!({"op":"VPush"}),
        VCons => json!({"op":"VCons"}),
        BRef => json!({"op":"BRef"}),
        BAppend => json!({"op":"BAppend"}),
        BEmpty => json!({"op":"BEmpty"}),
        BLength => json!({"op":"BLength"}),
        BSlice => json!({"op":"BSlice"}),
        BSet => json!({"op":"BSet"}),
        BPush => json!({"op":"BPush"}),
        BCons => json!({"op":"BCons"}),
        Bez(k) => json!({"op":"Bez","k":k}),
        Bnz(k) => json!({"op":"Bnz","k":k}),
        Jmp(k) => json!({"op":"Jmp","k":k}),
        Loop(n, m) => json!({"op":"Loop","n":n,"m":m}),
        ItoB => json!({"op":"ItoB"}),
        BtoI => json!({"op":"BtoI"}),
        TypeQ => json!({"op":"TypeQ"}),
        PushB(b) => json!({"op":"PushB","b":b}),
        PushI(i) => json!({"op":"PushI","i":limbs_u256(*i)}),
        PushIC(i) => json!({"op":"PushIC","i":limbs_u256(*i)}),
        Dup => json!({"op":"Dup"}),
    }
}

pub fn ops(v: &[OpCode]) -> J {
    J::Array(v.iter().map(opcode).collect())
}


fn u256_from_limbs(v: &J) -> U256 {
    let mut b = [0u8; 32];
    if let Some(a) = v.as_array() {
        for (i, x) in a.iter().enumerate().take(32) {
            b[i] = x.as_u64().unwrap_or(0) as u8;
        }
    }
    U256::from_le_bytes(b)
}

/// inverse of `opcode`: instruction records as the specification prints them
pub fn opcode_from_json(o: &J) -> Option<OpCode> {
    use OpCode::*;
    let u16f = |k: &str| o.get(k).and_then(|x| x.as_u64()).map(|x| x as u16);
    Some(match o.get("op")?.as_str()? {
        "Noop" => Noop, "Add" => Add, "Sub" => Sub, "Mul" => Mul, "Div" => Div, "Rem" => Rem,
        "Exp" => Exp(o.get("k")?.as_u64()? as u8),
        "And" => And, "Or" => Or, "Xor" => Xor, "Not" => Not, "Eql" => Eql, "Lt" => Lt, "Gt" => Gt, "Shl" => Shl, "Shr" => Shr,
        "Hash" => Hash(u16f("n")?), "SigEOk" => SigEOk(u16f("n")?),
        "Store" => Store, "Load" => Load, "StoreImm" => StoreImm(u16f("a")?), "LoadImm" => LoadImm(u16f("a")?),
        "VRef" => VRef, "VAppend" => VAppend, "VEmpty" => VEmpty, "VLength" => VLength, "VSlice" => VSlice, "VSet" => VSet, "VPush" => VPush, "VCons" => VCons,
        "BRef" => BRef, "BAppend" => BAppend, "BEmpty" => BEmpty, "BLength" => BLength, "BSlice" => BSlice, "BSet" => BSet, "BPush" => BPush, "BCons" => BCons,
        "Bez" => Bez(u16f("k")?), "Bnz" => Bnz(u16f("k")?), "Jmp" => Jmp(u16f("k")?), "Loop" => Loop(u16f("n")?, u16f("m")?),
        "ItoB" => ItoB, "BtoI" => BtoI, "TypeQ" => TypeQ,
        "PushB" => PushB(o.get("b")?.as_array()?.iter().map(|x| x.as_u64().unwrap_or(0) as u8).collect()),
        "PushI" => PushI(u256_from_limbs(o.get("i")?)), "PushIC" => PushIC(u256_from_limbs(o.get("i")?)),
        "Dup" => Dup,
        _ => return None,
    })
}

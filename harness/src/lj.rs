//! Ledger JSON projection: transactions, observed states, headers.  Fields are serialised as they are;
//! the only derived data are *oracle facts* computed from the primitives themselves (hashes, signature
//! checks, stdcode decodings, PoW verification), never from the code path under test.
use crate::js;
use crate::vm;
use melstf::{LegacyMelPowHash, Tip910MelPowHash};
use melstructs::*;
use melvm::{Covenant, CovenantEnv, VerifExecutor as Executor};
use serde_json::{json, Value as J};
use std::collections::{BTreeMap, HashMap};
use std::panic::{catch_unwind, AssertUnwindSafe};
use tmelcrypt::HashVal;

pub fn hx(h: &HashVal) -> String {
    hex::encode(h.0)
}

pub fn denom_s(d: &Denom) -> String {
    match d {
        Denom::Mel => "MEL".into(),
        Denom::Sym => "SYM".into(),
        Denom::Erg => "ERG".into(),
        Denom::NewCustom => "NEW".into(),
        Denom::Custom(h) => format!("C:{}", hx(&h.0)),
    }
}

pub fn coinid_j(c: &CoinID) -> J {
    json!([hx(&c.txhash.0), c.index])
}

pub fn poolkey_j(k: &PoolKey) -> J {
    json!({"l": denom_s(&k.left()), "r": denom_s(&k.right()), "lb": k.left().to_bytes().to_vec(), "rb": k.right().to_bytes().to_vec(),
           "liq": denom_s(&k.liq_token_denom())})
}

pub fn header_j(h: &Header) -> J {
    json!({
        "net": u8::from(h.network), "prev": hx(&h.previous), "prevb": h.previous.0.to_vec(), "height": h.height.0,
        "hist": hx(&h.history_hash), "histb": h.history_hash.0.to_vec(),
        "coins": hx(&h.coins_hash), "coinsb": h.coins_hash.0.to_vec(),
        "txs": hx(&h.transactions_hash), "txsb": h.transactions_hash.0.to_vec(),
        "feePool": js::limbs_u128(h.fee_pool.0), "feeMult": js::limbs_u128(h.fee_multiplier), "dosc": js::limbs_u128(h.dosc_speed),
        "pools": hx(&h.pools_hash), "poolsb": h.pools_hash.0.to_vec(),
        "stakes": hx(&h.stakes_hash), "stakesb": h.stakes_hash.0.to_vec(),
        "hash": hx(&h.hash()),
    })
}

pub fn coindata_j(cd: &CoinData) -> J {
    json!({"cov": hx(&cd.covhash.0), "covb": cd.covhash.0 .0.to_vec(), "val": js::limbs_u128(cd.value.0), "denom": denom_s(&cd.denom),
           "denomb": cd.denom.to_bytes().to_vec(), "data": cd.additional_data.to_vec()})
}

/// Everything the specification needs to know about one transaction.
pub struct TxFacts {
    pub last_header: Header,
}

pub fn stakedoc_j(data: &[u8]) -> J {
    match stdcode::deserialize::<StakeDoc>(data) {
        Ok(sd) => json!({"ok": true, "pk": hex::encode(sd.pubkey.0), "start": js::limbs_u64(sd.e_start), "end": js::limbs_u64(sd.e_post_end),
                         "syms": js::limbs_u128(sd.syms_staked.0)}),
        Err(_) => json!({"ok": false, "pk": "", "start": [], "end": [], "syms": []}),
    }
}

/// Oracle facts about a DoscMint transaction's data for a given puzzle seed header: decoded difficulty and which hash
/// function (if any) the proof verifies under.  `verify` is called by the harness directly on the dependency.
pub fn mint_j(tx: &Transaction, seed_header: Option<&Header>) -> J {
    let dec: Result<(u32, Vec<u8>), _> = stdcode::deserialize(&tx.data);
    match dec {
        Err(_) => json!({"decoded": false, "difficulty": 0, "parsed": false, "proof": "none"}),
        Ok((difficulty, proof_bytes)) => {
            let proof = melpow::Proof::from_bytes(&proof_bytes);
            match (proof, seed_header, tx.inputs.first()) {
                (Some(p), Some(h), Some(inp)) => {
                    let puzzle = tmelcrypt::hash_keyed(h.hash(), &stdcode::serialize(inp).unwrap());
                    let p2 = p.clone();
                    let legacy = catch_unwind(AssertUnwindSafe(|| p.verify(&puzzle, difficulty as usize, LegacyMelPowHash)));
                    let tip910 = catch_unwind(AssertUnwindSafe(|| p2.verify(&puzzle, difficulty as usize, Tip910MelPowHash)));
                    let verdict = match (legacy, tip910) {
                        (Ok(true), _) => "legacy",
                        (Ok(false), Ok(true)) => "tip910",
                        (Ok(false), Ok(false)) => "none",
                        _ => "panic",
                    };
                    json!({"decoded": true, "difficulty": js::limbs_u64(difficulty as u64), "parsed": true, "proof": verdict})
                }
                (None, _, _) => json!({"decoded": true, "difficulty": js::limbs_u64(difficulty as u64), "parsed": false, "proof": "none"}),
                _ => json!({"decoded": true, "difficulty": js::limbs_u64(difficulty as u64), "parsed": true, "proof": "noseed"}),
            }
        }
    }
}

/// Steps every covenant of `tx` through the real executor (hook) once per input it could guard, only to learn
/// which hash / signature facts the covenant asks for.  `resolve` yields the coin data of an input if known.
pub fn covenant_facts(tx: &Transaction, resolve: &dyn Fn(&CoinID) -> Option<CoinDataHeight>, last_header: &Header) -> vm::Facts {
    let mut facts = vm::Facts::new();
    let scripts = tx.covenants_as_map();
    for (i, inp) in tx.inputs.iter().enumerate() {
        if i > 64 {
            break;
        }
        if let Some(cdh) = resolve(inp) {
            if let Some(b) = scripts.get(&cdh.coin_data.covhash) {
                if let Ok(c) = Covenant::from_bytes(b) {
                    let ops = c.to_ops();
                    let env = CovenantEnv { parent_coinid: *inp, parent_cdh: cdh.clone(), spender_index: i as u8, last_header: *last_header };
                    let r = catch_unwind(AssertUnwindSafe(|| {
                        let exec = Executor::new_from_env(ops.clone(), tx.clone(), Some(env));
                        vm::step_through(exec, &ops, 100_000)
                    }));
                    if let Ok(st) = r {
                        for f in st.facts.hash {
                            if !facts.hash.contains(&f) {
                                facts.hash.push(f);
                            }
                        }
                        for f in st.facts.sig {
                            if !facts.sig.contains(&f) {
                                facts.sig.push(f);
                            }
                        }
                    }
                }
            }
        }
    }
    facts
}

pub fn tx_j(tx: &Transaction, facts: &vm::Facts, mint: J) -> J {
    let id = tx.hash_nosigs();
    let pk = PoolKey::from_bytes(&tx.data);
    let marker = melstf_marker(id);
    json!({
        "id": hx(&id.0), "hashb": id.0 .0.to_vec(), "kind": u8::from(tx.kind),
        "ins": tx.inputs.iter().map(|c| json!({"id": coinid_j(c), "txb": c.txhash.0 .0.to_vec(), "idx": c.index})).collect::<Vec<_>>(),
        "outs": tx.outputs.iter().map(coindata_j).collect::<Vec<_>>(),
        "fee": js::limbs_u128(tx.fee.0),
        "covs": tx.covenants.iter().map(|b| json!({"cov": hex::encode(tmelcrypt::hash_single(b).0), "bytes": b.to_vec()})).collect::<Vec<_>>(),
        "data": tx.data.to_vec(),
        "sigs": tx.sigs.iter().map(|s| s.to_vec()).collect::<Vec<_>>(),
        "size": stdcode::serialize(tx).unwrap().len(),
        "fullhash": hex::encode(tmelcrypt::hash_single(&stdcode::serialize(tx).unwrap()).0),
        "facts": facts.to_json(),
        "pk": match pk { Some(k) => json!({"ok": true, "key": poolkey_j(&k)}), None => json!({"ok": false, "key": {"l":"","r":"","lb":[],"rb":[],"liq":""}}) },
        "stakedoc": stakedoc_j(&tx.data),
        "mint": mint,
        "marker": hx(&marker.txhash.0), "seenFaucet": false,
        "hex": hex::encode(stdcode::serialize(tx).unwrap()),
    })
}

/// faucet dedup pseudo-coin id, derived from the primitive (the crate's own function is private)
pub fn melstf_marker(txhash: TxHash) -> CoinID {
    CoinID { txhash: tmelcrypt::hash_keyed(b"fdp", txhash.0).into(), index: 0 }
}

pub fn count_key(cov: &Address) -> [u8; 32] {
    tmelcrypt::hash_keyed(b"coin_count", cov.0).0
}

/// Dictionaries that let the harness name the entries of the (hash-keyed) trees it iterates.
#[derive(Default)]
pub struct Names {
    pub coins: HashMap<[u8; 32], CoinID>,
    pub covs: HashMap<[u8; 32], Address>,
    pub pools: HashMap<[u8; 32], PoolKey>,
    pub heights: HashMap<[u8; 32], u64>,
}

impl Names {
    pub fn coin(&mut self, c: CoinID) {
        self.coins.insert(tmelcrypt::hash_single(&stdcode::serialize(&c).unwrap()).0, c);
    }
    pub fn cov(&mut self, a: Address) {
        self.covs.insert(count_key(&a), a);
    }
    pub fn pool(&mut self, k: PoolKey) {
        self.pools.insert(tmelcrypt::hash_single(&stdcode::serialize(&k).unwrap()).0, k);
    }
    pub fn height(&mut self, h: u64) {
        self.heights.insert(tmelcrypt::hash_single(&stdcode::serialize(&BlockHeight(h)).unwrap()).0, h);
        self.coin(CoinID::proposer_reward(BlockHeight(h)));
    }
    pub fn tx(&mut self, tx: &Transaction) {
        let id = tx.hash_nosigs();
        for i in 0..tx.outputs.len().min(256) {
            self.coin(CoinID::new(id, i as u8));
        }
        // withdrawals synthesise output 1
        self.coin(CoinID::new(id, 1));
        for o in tx.outputs.iter() {
            self.cov(o.covhash);
        }
        for c in tx.inputs.iter() {
            self.coin(*c);
        }
        self.coin(melstf_marker(id));
        if let Some(k) = PoolKey::from_bytes(&tx.data) {
            self.pool(k);
            // the same name in canonical spelling
            if k.left() != k.right() {
                self.pool(PoolKey::new(k.left(), k.right()));
            }
        }
    }
}

pub fn tree_entries<C: novasmt::ContentAddrStore>(t: &novasmt::Tree<C>) -> Vec<([u8; 32], Vec<u8>)> {
    let mut v: Vec<([u8; 32], Vec<u8>)> = t.iter().map(|(k, v)| (k, v.to_vec())).collect();
    v.sort();
    v
}

/// Full projection of a state from the read-only view (hook) of an unsealed or sealed state.
pub fn view_j<C: novasmt::ContentAddrStore>(v: &melstf::VerifView<C>, names: &Names) -> J {
    let mut coins: Vec<(CoinID, CoinDataHeight)> = vec![];
    let mut counts: BTreeMap<String, u64> = BTreeMap::new();
    let mut unknown: Vec<String> = vec![];
    for (k, val) in tree_entries(&v.coins) {
        if let Some(cid) = names.coins.get(&k) {
            match stdcode::deserialize::<CoinDataHeight>(&val) {
                Ok(cdh) => coins.push((*cid, cdh)),
                Err(_) => unknown.push(hex::encode(k)),
            }
        } else if let Some(cov) = names.covs.get(&k) {
            match stdcode::deserialize::<u64>(&val) {
                Ok(n) => {
                    counts.insert(hx(&cov.0), n);
                }
                Err(_) => unknown.push(hex::encode(k)),
            }
        } else {
            unknown.push(hex::encode(k));
        }
    }
    coins.sort_by_key(|(c, _)| (hx(&c.txhash.0), c.index));
    let mut pools: Vec<J> = vec![];
    let mut unknown_pools: Vec<String> = vec![];
    for (k, val) in tree_entries(&v.pools) {
        match (names.pools.get(&k), stdcode::deserialize::<PoolState>(&val)) {
            (Some(pk), Ok(ps)) => pools.push(json!({"key": poolkey_j(pk), "l": js::limbs_u128(ps.lefts), "r": js::limbs_u128(ps.rights),
                                                    "acc": js::limbs_u128(ps.price_accum), "liqs": js::limbs_u128(ps.liqs)})),
            _ => unknown_pools.push(hex::encode(k)),
        }
    }
    pools.sort_by_key(|p| (p["key"]["l"].as_str().unwrap().to_string(), p["key"]["r"].as_str().unwrap().to_string()));
    let mut stakes: Vec<(String, J)> = v
        .stakes
        .iter()
        .map(|(k, sd)| {
            (hx(&k.0), json!({"tx": hx(&k.0), "pk": hex::encode(sd.pubkey.0), "start": js::limbs_u64(sd.e_start), "end": js::limbs_u64(sd.e_post_end),
                              "syms": js::limbs_u128(sd.syms_staked.0)}))
        })
        .collect();
    stakes.sort_by(|a, b| a.0.cmp(&b.0));
    let mut txset: Vec<String> = v.transactions.iter().map(|t| hx(&t.hash_nosigs().0)).collect();
    txset.sort();
    let mut hist: Vec<(u64, String)> = vec![];
    let mut unknown_hist = 0;
    for (k, val) in tree_entries(&v.history) {
        match (names.heights.get(&k), stdcode::deserialize::<Header>(&val)) {
            (Some(h), Ok(hd)) => hist.push((*h, hx(&hd.hash()))),
            _ => unknown_hist += 1,
        }
    }
    hist.sort();
    json!({
        "net": u8::from(v.network), "height": v.height.0,
        "feePool": js::limbs_u128(v.fee_pool.0), "tips": js::limbs_u128(v.tips.0), "feeMult": js::limbs_u128(v.fee_multiplier), "dosc": js::limbs_u128(v.dosc_speed),
        "coins": coins.iter().map(|(c, d)| json!({"id": coinid_j(c), "cov": hx(&d.coin_data.covhash.0), "val": js::limbs_u128(d.coin_data.value.0),
                 "denom": denom_s(&d.coin_data.denom), "data": d.coin_data.additional_data.to_vec(), "h": d.height.0})).collect::<Vec<_>>(),
        "counts": counts.iter().map(|(c, n)| json!({"cov": c, "n": n})).collect::<Vec<_>>(),
        "unknown": unknown, "pools": pools, "unknownPools": unknown_pools,
        "stakes": stakes.into_iter().map(|x| x.1).collect::<Vec<_>>(),
        "txset": txset,
        "hist": hist.iter().map(|(h, s)| json!([h, s])).collect::<Vec<_>>(), "unknownHist": unknown_hist,
        "roots": {"coins": hex::encode(v.coins.root_hash()), "pools": hex::encode(v.pools.root_hash()), "history": hex::encode(v.history.root_hash())},
    })
}

/// Typed list of the coins in a view (names known to the harness only).
pub fn coins_typed<C: novasmt::ContentAddrStore>(v: &melstf::VerifView<C>, names: &Names) -> Vec<(CoinID, CoinDataHeight)> {
    let mut out = vec![];
    for (k, val) in tree_entries(&v.coins) {
        if let Some(cid) = names.coins.get(&k) {
            if let Ok(cdh) = stdcode::deserialize::<CoinDataHeight>(&val) {
                out.push((*cid, cdh));
            }
        }
    }
    out.sort_by_key(|(c, _)| (c.txhash, c.index));
    out
}

pub fn pools_typed<C: novasmt::ContentAddrStore>(v: &melstf::VerifView<C>, names: &Names) -> Vec<(PoolKey, PoolState)> {
    let mut out = vec![];
    for (k, val) in tree_entries(&v.pools) {
        if let (Some(pk), Ok(ps)) = (names.pools.get(&k), stdcode::deserialize::<PoolState>(&val)) {
            out.push((*pk, ps));
        }
    }
    out
}

mod alloc;
mod boundary;
mod chaindrive;
mod codec;
mod consdrive;
mod doscdrive;
mod drive;
mod envdrive;
mod feedrive;
mod gallery;
mod genledger;
mod js;
mod keys;
mod lj;
mod rewarddrive;
mod stakedrive;
mod swapdrive;
mod tipdrive;
mod universe;
mod vm;
mod wallet;
mod world;

#[global_allocator]
static GLOBAL: alloc::Counting = alloc::Counting;

use rand::Rng;
use serde_json::json;
use std::io::Write;

pub struct Args {
    pub map: std::collections::HashMap<String, String>,
}
impl Args {
    fn parse(v: &[String]) -> Args {
        let mut map = std::collections::HashMap::new();
        let mut i = 0;
        while i < v.len() {
            if let Some(k) = v[i].strip_prefix("--") {
                if i + 1 < v.len() && !v[i + 1].starts_with("--") {
                    map.insert(k.to_string(), v[i + 1].clone());
                    i += 2;
                } else {
                    map.insert(k.to_string(), "1".to_string());
                    i += 1;
                }
            } else {
                i += 1;
            }
        }
        Args { map }
    }
    pub fn u64(&self, k: &str, d: u64) -> u64 {
        self.map.get(k).map(|s| s.parse().unwrap()).unwrap_or(d)
    }
    pub fn s(&self, k: &str, d: &str) -> String {
        self.map.get(k).cloned().unwrap_or(d.to_string())
    }
}

pub struct Out {
    w: std::io::BufWriter<std::fs::File>,
    pub n: u64,
}
impl Out {
    pub fn new(path: &str) -> Out {
        Out { w: std::io::BufWriter::new(std::fs::File::create(path).unwrap()), n: 0 }
    }
    pub fn put(&mut self, v: serde_json::Value) {
        serde_json::to_writer(&mut self.w, &v).unwrap();
        self.w.write_all(b"\n").unwrap();
        self.n += 1;
    }
    pub fn finish(mut self) -> u64 {
        self.w.flush().unwrap();
        self.n
    }
}

fn cmd_vm(a: &Args) {
    let seed = a.u64("seed", 1);
    let n = a.u64("n", 1000);
    let fam = a.s("fam", "mix");
    let mut out = Out::new(&a.s("out", "vm.ndjson"));
    let mut r = vm::gen_random_seeded(seed);
    if fam == "file" {
        // spec -> impl replay: programs enumerated by TLC (Gen_VM), one JSON object per line with the expected result
        use std::io::BufRead;
        let f = std::io::BufReader::new(std::fs::File::open(a.s("in", "progs.ndjson")).unwrap());
        for line in f.lines() {
            let v: serde_json::Value = serde_json::from_str(&line.unwrap()).unwrap();
            let ops: Vec<melvm::opcode::OpCode> = v["ops"].as_array().unwrap().iter().map(|o| js::opcode_from_json(o).expect("unknown instruction in generated program")).collect();
            let mut rec = vm::run_record("tlc-generated", &ops, Default::default(), 200_000);
            rec["expect"] = v["expect"].clone();
            out.put(rec);
        }
        let n = out.finish();
        println!("{}", json!({"records": n}));
        return;
    }
    if fam == "long" {
        // covenants of more than 2^20 instructions (no nesting), decoded and weighed through the public path in a child process
        for k in [1_000_000usize, 1_048_576, 1_048_577, 1_100_000, a.u64("kmax", 2_000_000) as usize] {
            out.put(vm::deep_record(k, true));
        }
        let n = out.finish();
        println!("{}", json!({"records": n}));
        return;
    }
    if fam == "optable" {
        vm::optable(&mut out);
        let n = out.finish();
        println!("{}", json!({"records": n}));
        return;
    }
    for i in 0..n {
        let (name, ops) = match fam.as_str() {
            "uniform" => ("uniform", vm::gen_uniform(&mut r)),
            "typed" => ("typed", vm::gen_typed(&mut r)),
            "loopy" => ("loopy", vm::gen_loopy(&mut r)),
            "sig" => ("sig", vm::gen_sig(&mut r)),
            "hash" => ("hash", vm::gen_hash(&mut r)),
            _ => match i % 10 {
                0 | 1 => ("uniform", vm::gen_uniform(&mut r)),
                2..=5 => ("typed", vm::gen_typed(&mut r)),
                6 | 7 => ("loopy", vm::gen_loopy(&mut r)),
                8 => ("sig", vm::gen_sig(&mut r)),
                _ => ("hash", vm::gen_hash(&mut r)),
            },
        };
        let heap = if r.gen_bool(0.3) { vm::rand_heap(&mut r) } else { Default::default() };
        out.put(vm::run_record(name, &ops, heap, 200_000));
    }
    let n = out.finish();
    println!("{}", json!({"records": n}));
}

fn cmd_vmcost(a: &Args) {
    let thorough = a.s("tier", "quick") == "thorough";
    let mut out = Out::new(&a.s("out", "vmcost.ndjson"));
    vm::cost_families(&mut out, thorough, a.u64("seed", 1));
    let n = out.finish();
    println!("{}", json!({"records": n}));
}

fn cmd_ledger(a: &Args) {
    let seed = a.u64("seed", 1);
    let mut out = Out::new(&a.s("out", "ledger.ndjson"));
    let net = drive::net_of(&a.s("net", "custom02"));
    let fm: u128 = a.s("feemult", "1000").parse().unwrap();
    drive::random_history(&mut out, &a.s("tag", "rand"), seed, net, a.u64("blocks", 10) as usize, fm, a.u64("jump", 0));
    let n = out.finish();
    println!("{}", json!({"records": n}));
}

fn cmd_gallery(a: &Args) {
    let mut out = Out::new(&a.s("out", "gallery.ndjson"));
    let net = drive::net_of(&a.s("net", "custom02"));
    let fm: u128 = a.s("feemult", "1000").parse().unwrap();
    gallery::gallery(&mut out, &a.s("tag", "gallery"), a.u64("seed", 1), net, fm);
    let n = out.finish();
    println!("{}", json!({"records": n}));
}

fn cmd_chain(a: &Args) {
    let mut out = Out::new(&a.s("out", "chain.ndjson"));
    let net = drive::net_of(&a.s("net", "custom02"));
    let fm: u128 = a.s("feemult", "1000").parse().unwrap();
    chaindrive::chain_history(&mut out, &a.s("tag", "chain"), a.u64("seed", 1), net, a.u64("blocks", 6) as usize, fm, a.u64("big", 0));
    let n = out.finish();
    println!("{}", json!({"records": n}));
}

fn cmd_stake(a: &Args) {
    let mut out = Out::new(&a.s("out", "stake.ndjson"));
    let net = drive::net_of(&a.s("net", "custom02"));
    stakedrive::stake_history(&mut out, &a.s("tag", "stake"), a.u64("seed", 1), net, a.u64("height", 399_997));
    let n = out.finish();
    println!("{}", json!({"records": n}));
}

fn cmd_consensus(a: &Args) {
    let mut out = Out::new(&a.s("out", "consensus.ndjson"));
    consdrive::consensus(&mut out, a.u64("seed", 1), a.s("tier", "quick") == "thorough");
    let n = out.finish();
    println!("{}", json!({"records": n}));
}

fn cmd_feemult(a: &Args) {
    let mut out = Out::new(&a.s("out", "feemult.ndjson"));
    feedrive::grid(&mut out, a.u64("seed", 1), a.s("tier", "quick") == "thorough");
    let n = out.finish();
    println!("{}", json!({"records": n}));
}

fn cmd_dosc(a: &Args) {
    let mut out = Out::new(&a.s("out", "dosc.ndjson"));
    let net = drive::net_of(&a.s("net", "custom02"));
    doscdrive::dosc_history(&mut out, &a.s("tag", "dosc"), a.u64("seed", 1), net, a.s("tier", "quick") == "thorough");
    let n = out.finish();
    println!("{}", json!({"records": n}));
}

fn cmd_boundary(a: &Args) {
    let mut out = Out::new(&a.s("out", "boundary.ndjson"));
    boundary::boundary(&mut out, &a.s("tag", "boundary"), a.u64("seed", 1), a.u64("cases", 300) as usize);
    let n = out.finish();
    println!("{}", json!({"records": n}));
}

fn cmd_universe(a: &Args) {
    let mut out = Out::new(&a.s("out", "universe.ndjson"));
    let fm: u128 = a.s("feemult", "3000").parse().unwrap();
    universe::universe(&mut out, &a.s("tag", "universe"), a.u64("seed", 1), fm, a.u64("maxlen", 2) as usize);
    let n = out.finish();
    println!("{}", json!({"records": n}));
}

fn cmd_genledger(a: &Args) {
    let mut out = Out::new(&a.s("out", "genledger.ndjson"));
    genledger::genledger(&mut out, &a.s("tag", "gen_ledger"), &a.s("in", "gen.ndjson"), a.u64("part", 0) as usize, a.u64("of", 1) as usize);
    let n = out.finish();
    println!("{}", json!({"records": n}));
}

fn cmd_env(a: &Args) {
    let mut out = Out::new(&a.s("out", "env.ndjson"));
    envdrive::env(&mut out, a.u64("seed", 1), a.u64("n", 300));
    let n = out.finish();
    println!("{}", json!({"records": n}));
}

fn cmd_tips(a: &Args) {
    let mut out = Out::new(&a.s("out", "tips.ndjson"));
    let net = drive::net_of(&a.s("net", "custom02"));
    if a.s("net", "custom02") == "genesis" {
        tipdrive::genesis_configs(&mut out, &a.s("tag", "genesis"));
    } else if a.s("net", "custom02") == "heights" {
        tipdrive::round_heights(&mut out, &a.s("tag", "heights"), a.u64("seed", 1));
    } else {
        tipdrive::tip_history(&mut out, &a.s("tag", "tips"), a.u64("seed", 1), net);
    }
    let n = out.finish();
    println!("{}", json!({"records": n}));
}

fn cmd_reward(a: &Args) {
    let mut out = Out::new(&a.s("out", "reward.ndjson"));
    rewarddrive::grid(&mut out, a.u64("seed", 1), a.u64("n", 2000));
    let n = out.finish();
    println!("{}", json!({"records": n}));
}

fn cmd_swap(a: &Args) {
    let mut out = Out::new(&a.s("out", "swap.ndjson"));
    let net = drive::net_of(&a.s("net", "custom02"));
    swapdrive::swap_history(&mut out, &a.s("tag", "swap"), a.u64("seed", 1), net, a.u64("blocks", 10) as usize, a.u64("big", 0) == 1, a.u64("forged", 0) == 1);
    let n = out.finish();
    println!("{}", json!({"records": n}));
}

fn cmd_codec(a: &Args) {
    let seed = a.u64("seed", 1);
    let mut out = Out::new(&a.s("out", "codec.ndjson"));
    let mut r = vm::gen_random_seeded(seed);
    match a.s("fam", "quick").as_str() {
        "exh" => codec::exhaustive(&mut out, a.u64("len", 2) as usize, a.u64("lo", 0) as u8, a.u64("hi", 255) as u8),
        "classes" => codec::arg_classes(&mut out, &mut r),
        "random" => codec::random_strings(&mut out, &mut r, a.u64("n", 5000)),
        _ => {
            for len in 0..=2 {
                codec::exhaustive(&mut out, len, 0, 255);
            }
        }
    }
    let n = out.finish();
    println!("{}", json!({"records": n}));
}

fn main() {
    std::panic::set_hook(Box::new(|_| {}));
    let argv: Vec<String> = std::env::args().collect();
    let a = Args::parse(&argv[2.min(argv.len())..]);
    match argv.get(1).map(|s| s.as_str()) {
        Some("vm") => cmd_vm(&a),
        Some("codec") => cmd_codec(&a),
        Some("ledger") => cmd_ledger(&a),
        Some("swap") => cmd_swap(&a),
        Some("gallery") => cmd_gallery(&a),
        Some("reward") => cmd_reward(&a),
        Some("tips") => cmd_tips(&a),
        Some("env") => cmd_env(&a),
        Some("universe") => cmd_universe(&a),
        Some("genledger") => cmd_genledger(&a),
        Some("boundary") => cmd_boundary(&a),
        Some("dosc") => cmd_dosc(&a),
        Some("feemult") => cmd_feemult(&a),
        Some("consensus") => cmd_consensus(&a),
        Some("stake") => cmd_stake(&a),
        Some("chain") => cmd_chain(&a),
        Some("vmcost") => cmd_vmcost(&a),
        Some("deepvalchild") => vm::deepval_child(a.u64("a", 1) as u16, a.u64("b", 1000) as u16),
        Some("deepchild") => vm::deep_child(a.u64("k", 1000) as usize, a.u64("flat", 0) == 1),
        _ => {
            eprintln!("usage: harness <vm|...> [--key value]...");
            std::process::exit(2);
        }
    }
}

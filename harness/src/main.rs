use melvm::VerifExecutor as Executor;
fn main() {
    let e = Executor::new(vec![], Default::default());
    println!("{} {}", e.pc(), e.verif_loop_depth());
    let _ = melvm::opcode::VERIF_WEIGH_WORK.load(std::sync::atomic::Ordering::Relaxed);
}

//! spec -> impl for the ledger: replays the state graph TLC generated from Gen_Ledger.tla (one line per edge: shortest action path
//! to the source state, the action, the state the specification expects after it) on the real code.  The universe of abstract
//! transactions printed by TLC is turned into real transactions (pure renaming: names -> hashes); every call is logged as an
//! ordinary ledger event (judged by Trace_Ledger), and for every edge the printed expectation and the observed outcome, both
//! rendered in the abstract names, are logged as agreement claims under one key (expectation first).  Nothing is decided here.
use crate::lj;
use crate::wallet::mk_coin;
use crate::world::{St, World};
use melstf::GenesisConfig;
use melstructs::*;
use serde_json::{json, Value as J};
use std::collections::{BTreeMap, HashMap};

fn limbs(v: &J) -> u128 {
    let mut x: u128 = 0;
    for (i, l) in v.as_array().map(|a| a.as_slice()).unwrap_or(&[]).iter().enumerate() {
        x |= (l.as_u64().unwrap() as u128) << (8 * i);
    }
    x
}
fn bytes(v: &J) -> Vec<u8> {
    v.as_array().map(|a| a.iter().map(|b| b.as_u64().unwrap() as u8).collect()).unwrap_or_default()
}

struct Uni {
    covs: BTreeMap<String, Vec<u8>>,
    spec: BTreeMap<String, J>,
    txs: BTreeMap<String, Transaction>,
}

impl Uni {
    fn addr(&self, name: &str) -> Address {
        match self.covs.get(name) {
            Some(b) => Address(tmelcrypt::hash_single(b)),
            None => Address::coin_destroy(),
        }
    }
    fn denom(&self, d: &str) -> Denom {
        match d {
            "MEL" => Denom::Mel,
            "SYM" => Denom::Sym,
            "ERG" => Denom::Erg,
            _ => Denom::NewCustom,
        }
    }
    fn build(&mut self, name: &str) -> Transaction {
        if let Some(t) = self.txs.get(name) {
            return t.clone();
        }
        let s = self.spec[name].clone();
        let mut inputs = vec![];
        for i in s["ins"].as_array().unwrap() {
            let src = i["id"][0].as_str().unwrap().to_string();
            let idx = i["id"][1].as_u64().unwrap() as u8;
            let id = if src == "gen" {
                CoinID::zero_zero()
            } else if self.spec.contains_key(&src) {
                CoinID::new(self.build(&src).hash_nosigs(), idx)
            } else {
                CoinID::new(TxHash(tmelcrypt::hash_single(src.as_bytes())), idx)
            };
            inputs.push(id);
        }
        let outputs: Vec<CoinData> = s["outs"].as_array().unwrap().iter()
            .map(|o| mk_coin(self.addr(o["cov"].as_str().unwrap()), limbs(&o["val"]), self.denom(o["denom"].as_str().unwrap()), &bytes(&o["data"]))).collect();
        let tx = Transaction {
            kind: TxKind::try_from(s["kind"].as_u64().unwrap() as u8).unwrap(),
            inputs, outputs, fee: CoinValue(limbs(&s["fee"])),
            covenants: s["covs"].as_array().unwrap().iter().map(|c| bytes(&c["bytes"]).into()).collect(),
            data: bytes(&s["data"]).into(), sigs: vec![],
        };
        self.txs.insert(name.to_string(), tx.clone());
        tx
    }
}

pub fn genledger(out: &mut crate::Out, tag: &str, infile: &str, part: usize, of: usize) {
    let text = std::fs::read_to_string(infile).expect("gen file");
    let mut lines = text.lines().filter(|l| !l.trim().is_empty()).map(|l| serde_json::from_str::<J>(l).unwrap());
    let uni_j = lines.next().expect("UNIVERSE line");
    assert_eq!(uni_j["k"], "UNIVERSE");
    let mut uni = Uni { covs: BTreeMap::new(), spec: BTreeMap::new(), txs: BTreeMap::new() };
    for (k, v) in uni_j["covs"].as_object().unwrap() {
        uni.covs.insert(k.clone(), bytes(v));
    }
    for (k, v) in uni_j["txs"].as_object().unwrap() {
        uni.spec.insert(k.clone(), v.clone());
    }
    let names: Vec<String> = uni.spec.keys().cloned().collect();
    for n in names.iter() {
        uni.build(n);
    }
    // reverse dictionaries (real -> abstract names)
    let mut txname: HashMap<String, String> = HashMap::new();
    txname.insert(lj::hx(&CoinID::zero_zero().txhash.0), "gen".into());
    for (n, t) in uni.txs.iter() {
        txname.insert(lj::hx(&t.hash_nosigs().0), n.clone());
        txname.insert(lj::hx(&lj::melstf_marker(t.hash_nosigs()).txhash.0), format!("fdp:{}", n));
    }
    let mut covname: HashMap<String, String> = HashMap::new();
    for n in uni.covs.keys() {
        covname.insert(lj::hx(&uni.addr(n).0), n.clone());
    }
    let net = NetID::try_from(uni_j["net"].as_u64().unwrap() as u8).unwrap();
    let mut w = World::new(out, tag);
    let cfg = GenesisConfig {
        network: net,
        init_coindata: mk_coin(uni.addr(uni_j["gen"]["cov"].as_str().unwrap()), limbs(&uni_j["gen"]["val"]), uni.denom(uni_j["gen"]["denom"].as_str().unwrap()), &[]),
        stakes: BTreeMap::new(),
        init_fee_pool: CoinValue(limbs(&uni_j["feePool"])),
        init_fee_multiplier: uni_j["feeMult"].as_u64().unwrap() as u128,
    };
    for n in uni.covs.keys() {
        w.names.cov(uni.addr(n));
    }
    let g = w.genesis(cfg);
    let reward_dest = uni.addr("T");
    // one step of the abstract behaviour on the real code; returns (state id, accepted)
    fn step(w: &mut World, uni: &Uni, sid: usize, a: &J, reward_dest: Address, why: &str) -> (usize, bool) {
        match a["t"].as_str().unwrap() {
            "batch" => {
                let txs: Vec<Transaction> = a["b"].as_array().unwrap().iter().map(|n| uni.txs[n.as_str().unwrap()].clone()).collect();
                w.batch(sid, &txs, 0, json!({"why": why, "gen": a}))
            }
            "seal" => {
                let act = if a["w"].as_bool().unwrap() { Some(ProposerAction { fee_multiplier_delta: 0, reward_dest }) } else { None };
                match w.seal(sid, act, json!({"why": why, "gen": a})) {
                    Some(n) => (n, true),
                    None => (sid, false),
                }
            }
            _ => (w.next(sid), true),
        }
    }
    let mut at: HashMap<String, usize> = HashMap::new();
    at.insert("[]".into(), g);
    let mut n_edge = 0usize;
    for e in lines {
        if e["k"] != "EDGE" {
            continue;
        }
        n_edge += 1;
        let path = e["path"].as_array().unwrap().clone();
        let full_key = {
            let mut p = path.clone();
            p.push(e["act"].clone());
            J::Array(p).to_string()
        };
        // this run's share of the edges (paths are walked as needed)
        if n_edge % of != part {
            continue;
        }
        // walk to the source state
        let mut sid = g;
        let mut key = vec![];
        for a in path.iter() {
            key.push(a.clone());
            let ks = J::Array(key.clone()).to_string();
            sid = match at.get(&ks) {
                Some(s) => *s,
                None => {
                    let (n, _) = step(&mut w, &uni, sid, a, reward_dest, "gen_ledger: path");
                    at.insert(ks, n);
                    n
                }
            };
        }
        let ex = &e["expect"];
        let is_batch = e["act"]["t"] == "batch";
        let mut ecoins: Vec<String> = ex["coins"].as_array().unwrap().iter()
            .map(|c| format!("{}:{}|{}|{}|{}|{}", c["id"][0].as_str().unwrap(), c["id"][1], c["cov"].as_str().unwrap(), limbs(&c["val"]), c["denom"].as_str().unwrap(), c["h"])).collect();
        ecoins.sort();
        let kb = format!("gen:{}:{}", tag, n_edge);
        let c_ok = "the real code accepts / rejects a batch differently from the behaviour TLC generated from the ledger specification";
        let c_coins = "the coins after a step differ from the state TLC generated from the ledger specification for the same behaviour";
        let c_fee = "fee pool / tips after a step differ from the state TLC generated from the ledger specification for the same behaviour";
        let c_hp = "height / phase after a step differ from the state TLC generated from the ledger specification for the same behaviour";
        let mut claims = vec![json!([format!("{}:coins", kb), ecoins.join(" "), "C02", c_coins]),
                              json!([format!("{}:fees", kb), format!("{} {}", limbs(&ex["feePool"]), limbs(&ex["tips"])), "C05", c_fee]),
                              json!([format!("{}:hp", kb), format!("{} {}", ex["height"], ex["phase"].as_str().unwrap()), "C07", c_hp])];
        if is_batch {
            claims.push(json!([format!("{}:ok", kb), ex["ok"].to_string(), "C02", c_ok]));
        }
        w.emit(json!({"ev": "expect", "claims": claims, "x": {"edge": n_edge, "path": e["path"], "act": e["act"]}}));
        let (nid, ok) = step(&mut w, &uni, sid, &e["act"], reward_dest, "gen_ledger: edge");
        at.insert(full_key, nid);
        // observed outcome in the abstract names
        let (view, sealed) = match &w.states[nid] {
            St::U(u) => (u.verif_view(), false),
            St::S(s) => (s.verif_view(), true),
        };
        let mut ocoins: Vec<String> = lj::coins_typed(&view, &w.names).iter().map(|(id, cdh)| {
            let th = lj::hx(&id.txhash.0);
            let (nm, idx) = match txname.get(&th) {
                Some(n) => (n.clone(), id.index as u64),
                None => {
                    // proposer reward pseudo-coins
                    let mut r = (format!("?{}", th), id.index as u64);
                    for h in 0..=view.height.0 {
                        if CoinID::proposer_reward(BlockHeight(h)) == *id {
                            r = ("reward".to_string(), h);
                        }
                    }
                    r
                }
            };
            let cov = covname.get(&lj::hx(&cdh.coin_data.covhash.0)).cloned().unwrap_or_else(|| lj::hx(&cdh.coin_data.covhash.0));
            let den = match cdh.coin_data.denom {
                Denom::Custom(h) => format!("C:{}", txname.get(&lj::hx(&h.0)).cloned().unwrap_or_else(|| lj::hx(&h.0))),
                d => lj::denom_s(&d),
            };
            format!("{}:{}|{}|{}|{}|{}", nm, idx, cov, cdh.coin_data.value.0, den, cdh.height.0)
        }).collect();
        ocoins.sort();
        let mut oclaims = vec![json!([format!("{}:coins", kb), ocoins.join(" "), "C02", c_coins]),
                               json!([format!("{}:fees", kb), format!("{} {}", view.fee_pool.0, view.tips.0), "C05", c_fee]),
                               json!([format!("{}:hp", kb), format!("{} {}", view.height.0, if sealed { "sealed" } else { "unsealed" }), "C07", c_hp])];
        if is_batch {
            oclaims.push(json!([format!("{}:ok", kb), ok.to_string(), "C02", c_ok]));
        }
        w.emit(json!({"ev": "observed", "claims": oclaims, "x": {"edge": n_edge, "path": e["path"], "act": e["act"]}}));
    }
}

//! Block-level workloads: honest blocks and every single mutation of them (C06), restart twins in lockstep (C08),
//! Merkle proofs of every entry (C07).
use crate::drive::{step, Driver};
use crate::lj;
use crate::wallet::{mk_coin, CovKind};
use crate::world::{St, World, S};
use melstf::SmtMapping;
use melstructs::*;
use novasmt::InMemoryCas;
use rand::Rng;
use serde_json::{json, Value as J};
use std::collections::{BTreeMap, HashSet};
use tmelcrypt::HashVal;

/// what the block's header would have to be for its contents to be the correct successor of `parent`
/// (computed with the implementation's own next_unsealed / apply_tx_batch / seal: roots are opaque to the specification)
pub fn honest_header(parent: &S, txs: &[Transaction], action: Option<ProposerAction>) -> Option<Header> {
    std::panic::catch_unwind(std::panic::AssertUnwindSafe(|| {
        let mut u = parent.next_unsealed();
        u.apply_tx_batch(txs).ok()?;
        Some(u.seal(action).header())
    }))
    .ok()
    .flatten()
}

fn flip(h: HashVal) -> HashVal {
    let mut b = h.0;
    b[7] ^= 0x40;
    HashVal(b)
}

pub fn header_mutations(h: &Header) -> Vec<(Header, &'static str)> {
    let mut v = vec![];
    let mut m = *h;
    m.network = if h.network == NetID::Custom02 { NetID::Custom03 } else { NetID::Custom02 };
    v.push((m, "header.network"));
    let mut m = *h;
    m.previous = flip(h.previous);
    v.push((m, "header.previous"));
    let mut m = *h;
    m.height = BlockHeight(h.height.0 + 1);
    v.push((m, "header.height"));
    let mut m = *h;
    m.history_hash = flip(h.history_hash);
    v.push((m, "header.history_hash"));
    let mut m = *h;
    m.coins_hash = flip(h.coins_hash);
    v.push((m, "header.coins_hash"));
    let mut m = *h;
    m.transactions_hash = flip(h.transactions_hash);
    v.push((m, "header.transactions_hash"));
    let mut m = *h;
    m.fee_pool = CoinValue(h.fee_pool.0 ^ 1);
    v.push((m, "header.fee_pool"));
    let mut m = *h;
    m.fee_multiplier = h.fee_multiplier ^ 1;
    v.push((m, "header.fee_multiplier"));
    let mut m = *h;
    m.dosc_speed = h.dosc_speed + 1;
    v.push((m, "header.dosc_speed"));
    let mut m = *h;
    m.pools_hash = flip(h.pools_hash);
    v.push((m, "header.pools_hash"));
    let mut m = *h;
    m.stakes_hash = flip(h.stakes_hash);
    v.push((m, "header.stakes_hash"));
    v
}

fn extra(mutname: &str, honest: &Option<Header>, pair: Option<String>) -> J {
    let mut x = json!({"mut": mutname, "honestOk": honest.is_some(), "honest": honest.map(|h| lj::hx(&h.hash())).unwrap_or_default(),
                       "honestHeader": honest.map(|h| lj::header_j(&h)).unwrap_or(json!({}))});
    if let Some(p) = pair {
        x["agree"] = json!([[format!("C03|{}", p), "C03"], [format!("C08|{}", p), "C08"]]);
    }
    x
}

/// Merkle proofs for every entry of every tree of a sealed state, 8 absent keys per tree, and three tamperings each.
pub fn proofs(w: &mut World, sid: usize) {
    let s = w.sealed(sid).clone();
    let hd = s.header();
    let mut tally: BTreeMap<(String, String, bool), u64> = BTreeMap::new();
    let mut note = |tree: &str, kind: &str, ok: bool| {
        *tally.entry((tree.to_string(), kind.to_string(), ok)).or_insert(0) += 1;
    };
    let trees: Vec<(&str, novasmt::Tree<InMemoryCas>, [u8; 32])> = vec![
        ("coins", s.raw_coins_smt(), hd.coins_hash.0),
        ("pools", s.raw_pools_smt(), hd.pools_hash.0),
        ("history", s.raw_history_smt(), hd.history_hash.0),
    ];
    for (name, tree, root) in trees.iter() {
        let mut n = 0;
        for (k, v) in tree.iter() {
            n += 1;
            if n > 400 {
                break;
            }
            let (val, proof) = tree.get_with_proof(k);
            note(name, "present", val[..] == v[..] && proof.verify(*root, k, &val));
            let mut bad = val.to_vec();
            bad[0] ^= 1;
            note(name, "tamper-value", proof.verify(*root, k, &bad));
            note(name, "tamper-absent", proof.verify(*root, k, &[]));
            let mut k2 = k;
            k2[31] ^= 1;
            note(name, "tamper-key", proof.verify(*root, k2, &val));
            let mut r2 = *root;
            r2[0] ^= 1;
            note(name, "tamper-root", proof.verify(r2, k, &val));
        }
        for i in 0..8u8 {
            let k = tmelcrypt::hash_single([i, 0xaa, n as u8]).0;
            let (val, proof) = tree.get_with_proof(k);
            if val.is_empty() {
                note(name, "absent", proof.verify(*root, k, &[]));
                note(name, "tamper-present", proof.verify(*root, k, &[1, 2, 3]));
            }
        }
    }
    // typed accessors agree with the raw trees
    for (cid, cdh) in lj::coins_typed(&s.verif_view(), &w.names).iter().take(200) {
        note("coins", "typed-get", s.coin(*cid).as_ref() == Some(cdh));
    }
    // every height the history tree actually holds (a lineage fabricated at a height does not hold all of 0..height)
    let held: Vec<u64> = { let mut v: Vec<u64> = lj::tree_entries(&s.raw_history_smt()).iter().filter_map(|(k, _)| w.names.heights.get(k).copied()).collect(); v.sort(); v.truncate(50); v };
    for h in held {
        let hist: SmtMapping<InMemoryCas, BlockHeight, Header> = SmtMapping::new(s.raw_history_smt());
        let (v, proof) = hist.get_with_proof(&BlockHeight(h));
        let key = tmelcrypt::hash_single(&stdcode::serialize(&BlockHeight(h)).unwrap()).0;
        let ok = match &v {
            Some(x) => proof.verify(hd.history_hash.0, key, &stdcode::serialize(x).unwrap()) && s.history(BlockHeight(h)).map(|y| y.hash()) == Some(x.hash()),
            None => false,
        };
        note("history", "typed-present", ok);
    }
    // stakes: old-style tree rebuilt from the stake set
    {
        let st = s.raw_stakes();
        let tree = st.pre_tip911();
        note("stakes", "root-is-header", tree.root_hash() == hd.stakes_hash.0);
        for (k, v) in st.iter() {
            let key = tmelcrypt::hash_single(&stdcode::serialize(k).unwrap()).0;
            let (val, proof) = tree.get_with_proof(key);
            note("stakes", "present", val[..] == stdcode::serialize(v).unwrap()[..] && proof.verify(hd.stakes_hash.0, key, &val));
            note("stakes", "typed-get", s.stake(*k).map(|x| stdcode::serialize(&x).unwrap()) == Some(stdcode::serialize(v).unwrap()));
        }
    }
    // transactions: sparse tree before TIP-908, dense tree after
    let txs: Vec<Transaction> = s.transactions().cloned().collect();
    if hd.network == NetID::Custom08 {
        let mut vv: Vec<Vec<u8>> = txs.iter().map(|t| { let mut v = t.hash_nosigs().0 .0.to_vec(); v.extend_from_slice(&tmelcrypt::hash_single(&stdcode::serialize(t).unwrap()).0); v }).collect();
        vv.sort_unstable();
        let dense = novasmt::dense::DenseMerkleTree::new(&vv);
        note("txs", "root-is-header", dense.root_hash() == hd.transactions_hash.0);
        for t in txs.iter() {
            let posn = s.transaction_sorted_posn(t.hash_nosigs());
            match posn {
                Some(i) => {
                    let leaf = novasmt::hash_data(&vv[i]);
                    let starts = vv[i][..32] == t.hash_nosigs().0 .0[..];
                    note("txs", "present", starts && novasmt::dense::verify_dense(&dense.proof(i), hd.transactions_hash.0, i, leaf));
                    let mut badleaf = leaf;
                    badleaf[0] ^= 1;
                    note("txs", "tamper-value", novasmt::dense::verify_dense(&dense.proof(i), hd.transactions_hash.0, i, badleaf));
                    if vv.len() > 1 {
                        note("txs", "tamper-key", novasmt::dense::verify_dense(&dense.proof(i), hd.transactions_hash.0, (i + 1) % vv.len(), leaf) && vv[i] != vv[(i + 1) % vv.len()]);
                    }
                }
                None => note("txs", "present", false),
            }
        }
        note("txs", "absent", s.transaction_sorted_posn(TxHash(tmelcrypt::hash_single(b"absent"))).is_none());
    } else {
        let db = novasmt::Database::new(InMemoryCas::default());
        let mut smt: SmtMapping<InMemoryCas, TxHash, Transaction> = SmtMapping::new(db.get_tree([0u8; 32]).unwrap());
        for t in txs.iter() {
            smt.insert(t.hash_nosigs(), t.clone());
        }
        note("txs", "root-is-header", smt.root_hash() == hd.transactions_hash);
        for (i, t) in txs.iter().enumerate() {
            let (v, proof) = smt.get_with_proof(&t.hash_nosigs());
            let key = tmelcrypt::hash_single(&stdcode::serialize(&t.hash_nosigs()).unwrap()).0;
            note("txs", "present", v.as_ref() == Some(t) && proof.verify(hd.transactions_hash.0, key, &stdcode::serialize(t).unwrap()));
            note("txs", "sorted-position", s.transaction_sorted_posn(t.hash_nosigs()) == Some(i));
            let mut t2 = t.clone();
            t2.sigs.push(vec![1].into());
            note("txs", "tamper-value", proof.verify(hd.transactions_hash.0, key, &stdcode::serialize(&t2).unwrap()));
        }
        let absent = TxHash(tmelcrypt::hash_single(b"absent"));
        let (v, proof) = smt.get_with_proof(&absent);
        note("txs", "absent", v.is_none() && proof.verify(hd.transactions_hash.0, tmelcrypt::hash_single(&stdcode::serialize(&absent).unwrap()).0, &[]));
    }
    let rows: Vec<J> = tally.iter().map(|((t, k, ok), n)| json!({"tree": t, "kind": k, "ok": ok, "n": n})).collect();
    // a state and its restarted twin must answer every proof / position query alike (C08)
    let dg = hex::encode(&tmelcrypt::hash_single(serde_json::to_vec(&rows).unwrap()).0[..12]);
    let claims = json!([[format!("C08|queries|{}|{}", w.tag, lj::hx(&hd.hash())), dg, "C08", "a state rebuilt from its block answers proof / position queries differently from the original"]]);
    let ev = json!({"ev": "proofs", "preid": sid, "height": hd.height.0, "rows": rows, "claims": claims, "res": "ok"});
    w.out.put({ let mut e = ev; e["i"] = json!(w.events); e["tag"] = json!(w.tag.clone()); e });
    w.events += 1;
}

/// A random history in which every block is also delivered as a block to its parent (honest and mutated),
/// every sealed state is restarted and the twin is driven in lockstep, and every entry is proven.
pub fn chain_history(out: &mut crate::Out, tag: &str, seed: u64, net: NetID, blocks: usize, fee_mult: u128, big: u64) {
    let mut d = Driver::new(out, tag, seed, net, fee_mult, Denom::Mel, 1u128 << 60, 1 << 40, BTreeMap::new());
    d.wal.simple = d.r.gen_bool(0.5);
    let first = d.seal_next(Some(false)).unwrap();
    if net != NetID::Mainnet {
        let a = d.wal.address(CovKind::New(1));
        let b = d.wal.address(CovKind::Legacy(2));
        let f = d.faucet(vec![mk_coin(a, 5_000_000_000, Denom::Sym, &[]), mk_coin(b, 7_000_000_000, Denom::Erg, &[]), mk_coin(a, 1_000_000_000_000, Denom::Mel, &[])], 0, 1);
        d.apply(&[f], 0, json!({"why": "bootstrap-faucet"}));
    }
    // one large block with in-block dependencies: 135 faucets and 135 transactions spending them, delivered as a block through
    // several re-seeded hash sets (the order in which a node sees the transactions must not matter)
    let mut parent = first; // sealed state the current block extends
    if net != NetID::Mainnet && big > 0 {
        // big = 1: 135 pairs (270 transactions); 2: 300 pairs (600: beyond a window of 512); 3: 1100 pairs (2200: beyond 1024 and 2048)
        let pairs: u32 = match big { 1 => 135, 2 => 300, _ => 1100 };
        let a = d.wal.address(CovKind::True);
        let mut batch: Vec<Transaction> = vec![];
        for i in 0..pairs {
            let f = d.faucet(vec![mk_coin(a, 1_000_000 + i as u128, Denom::Mel, &[])], 0, (i % 250) as u8);
            let mut f = f;
            f.data = vec![(i % 250) as u8, (i / 250) as u8, 99].into();
            for _ in 0..3 {
                f.fee = CoinValue(crate::wallet::min_fee(&f, d.fee_mult()));
            }
            let h = d.view().height;
            let c = (CoinID::new(f.hash_nosigs(), 0), CoinDataHeight { coin_data: f.outputs[0].clone(), height: h });
            if let Some(child) = d.build(TxKind::Normal, &[c], vec![], 1, vec![], 0) {
                batch.push(f);
                batch.push(child);
            }
        }
        if d.apply(&batch, 0, json!({"why": "large batch with in-batch dependencies", "agreeRes": format!("C03res|{}|bigblock", tag)})) {
            if let Some(sealed) = d.seal_next(Some(true)) {
                let blk = d.w.sealed(sealed).to_block();
                let par = d.w.sealed(parent).clone();
                let txs: Vec<Transaction> = blk.transactions.iter().cloned().collect();
                // the block was produced by sealing batches this implementation accepted itself: if re-deriving its header from the parent in one
        // batch fails, the produced header is still the honest one (C06: every block produced from an honestly built state is accepted)
        let honest = honest_header(&par, &txs, blk.proposer_action).or(Some(blk.header));
                let key = format!("C03|{}|bigblock", tag);
                for threads in (if big >= 2 { vec![0usize, 3, 0] } else { vec![0usize, 1, 3, 16, 0, 0, 0, 0] }) {
                    let rebuilt = Block { header: blk.header, transactions: blk.transactions.iter().cloned().collect::<HashSet<_>>(), proposer_action: blk.proposer_action };
                    let mut x = extra("none (large block)", &honest, None);
                    x["agree"] = json!([[key.clone(), "C03"]]);
                    x["agreeRes"] = json!(format!("C03res|{}|bigblock", tag));
                    d.w.block(parent, &rebuilt, threads, x);
                }
                parent = sealed;
            }
        }
    }
    let mut twin: Option<usize> = None; // restarted twin of `parent`
    for b in 0..blocks {
        let nb = d.r.gen_range(1..4);
        for _ in 0..nb {
            step(&mut d);
        }
        let with_action = match b % 3 { 0 => Some(false), 1 => Some(true), _ => None };
        let Some(sealed) = d.seal_next(with_action) else { continue };
        let s_new = d.w.sealed(sealed).clone();
        let blk = s_new.to_block();
        let par = d.w.sealed(parent).clone();
        let txs: Vec<Transaction> = blk.transactions.iter().cloned().collect();
        // the block was produced by sealing batches this implementation accepted itself: if re-deriving its header from the parent in one
        // batch fails, the produced header is still the honest one (C06: every block produced from an honestly built state is accepted)
        let honest = honest_header(&par, &txs, blk.proposer_action).or(Some(blk.header));
        let pairkey = format!("C08|{}|{}", tag, blk.header.height.0);
        // 1. the honest block, through a rebuilt HashSet and several pool sizes, on the original and on the restarted twin
        for threads in [0usize, 1, 4] {
            let rebuilt = Block { header: blk.header, transactions: blk.transactions.iter().cloned().collect::<HashSet<_>>(), proposer_action: blk.proposer_action };
            d.w.block(parent, &rebuilt, threads, extra("none", &honest, Some(pairkey.clone())));
        }
        if let Some(t) = twin {
            d.w.block(t, &blk, 0, extra("none (on the restarted twin)", &honest, Some(pairkey.clone())));
        }
        // 2. every header field
        for (hm, name) in header_mutations(&blk.header) {
            let m = Block { header: hm, transactions: blk.transactions.clone(), proposer_action: blk.proposer_action };
            d.w.block(parent, &m, 0, extra(name, &honest, None));
        }
        // 3. transactions: remove one, add one, change one (signature only, data)
        if let Some(t) = txs.first() {
            let mut set = blk.transactions.clone();
            set.remove(t);
            let rest: Vec<Transaction> = set.iter().cloned().collect();
            let hh = honest_header(&par, &rest, blk.proposer_action);
            d.w.block(parent, &Block { header: blk.header, transactions: set, proposer_action: blk.proposer_action }, 0, extra("tx removed", &hh, None));
            let mut t2 = t.clone();
            t2.sigs.push(vec![0u8; 3].into());
            let mut set = blk.transactions.clone();
            set.remove(t);
            set.insert(t2);
            let l: Vec<Transaction> = set.iter().cloned().collect();
            let hh = honest_header(&par, &l, blk.proposer_action);
            d.w.block(parent, &Block { header: blk.header, transactions: set, proposer_action: blk.proposer_action }, 0, extra("tx changed in its signatures only", &hh, None));
            // the same transaction twice, differing in signatures only (same hash_nosigs): consumes its inputs twice
            for _ in 0..6 {
                let mut t2 = t.clone();
                t2.sigs.push(vec![9u8; 2].into());
                let mut set: HashSet<Transaction> = blk.transactions.iter().cloned().collect();
                set.insert(t2);
                let l: Vec<Transaction> = set.iter().cloned().collect();
                let hh = honest_header(&par, &l, blk.proposer_action);
                // the same block (as a set) every time, through freshly seeded hash sets: one verdict
                let mut x = extra("tx duplicated with different signatures", &hh, None);
                x["agreeRes"] = json!(format!("C03res|{}|{}|signature-twin", tag, blk.header.height.0));
                d.w.block(parent, &Block { header: blk.header, transactions: set, proposer_action: blk.proposer_action }, 0, x);
            }
            let mut t3 = t.clone();
            t3.data = vec![0x55].into();
            let mut set = blk.transactions.clone();
            set.remove(t);
            set.insert(t3);
            let l: Vec<Transaction> = set.iter().cloned().collect();
            let hh = honest_header(&par, &l, blk.proposer_action);
            d.w.block(parent, &Block { header: blk.header, transactions: set, proposer_action: blk.proposer_action }, 0, extra("tx data changed", &hh, None));
        }
        if net != NetID::Mainnet {
            let a = d.wal.address(CovKind::True);
            let salt: u8 = d.r.gen();
            let mut extra_tx = Transaction { kind: TxKind::Faucet, inputs: vec![], outputs: vec![mk_coin(a, 5, Denom::Mel, &[])], fee: CoinValue(0), covenants: vec![], data: vec![salt, 7].into(), sigs: vec![] };
            for _ in 0..3 {
                extra_tx.fee = CoinValue(crate::wallet::min_fee(&extra_tx, par.header().fee_multiplier));
            }
            let mut set = blk.transactions.clone();
            set.insert(extra_tx);
            let l: Vec<Transaction> = set.iter().cloned().collect();
            let hh = honest_header(&par, &l, blk.proposer_action);
            d.w.block(parent, &Block { header: blk.header, transactions: set, proposer_action: blk.proposer_action }, 0, extra("tx added", &hh, None));
        }
        // 4. proposer action
        let dest = d.wal.address(CovKind::True);
        let alts: Vec<(Option<ProposerAction>, &str)> = match blk.proposer_action {
            Some(a) => vec![(None, "action removed"), (Some(ProposerAction { fee_multiplier_delta: a.fee_multiplier_delta.wrapping_add(1), reward_dest: a.reward_dest }), "action delta changed"),
                            (Some(ProposerAction { fee_multiplier_delta: a.fee_multiplier_delta, reward_dest: dest }), "action destination changed")],
            None => vec![(Some(ProposerAction { fee_multiplier_delta: 0, reward_dest: dest }), "action added")],
        };
        for (a, name) in alts {
            let hh = honest_header(&par, &txs, a);
            d.w.block(parent, &Block { header: blk.header, transactions: blk.transactions.clone(), proposer_action: a }, 0, extra(name, &hh, None));
        }
        // 4b. blocks that only a defective node would build: batches the rules forbid, delivered to the new state with whatever
        // header this implementation's own batch + seal give them (if they give one at all)
        {
            let mut forb: Vec<(Vec<Transaction>, String)> = vec![];
            let sp = d.spendable();
            let sym = sp.iter().find(|(_, x)| x.coin_data.denom == Denom::Sym && x.coin_data.value.0 > 1000).cloned();
            let fee = sp.iter().find(|(_, x)| x.coin_data.denom == Denom::Mel && x.coin_data.value.0 > 5_000_000).cloned();
            if let (Some(sym), Some(fee)) = (sym, fee) {
                let e = d.view().height.epoch();
                let amount = sym.1.coin_data.value.0 / 2;
                if let Some(t) = crate::stakedrive::stake_tx(&mut d, &sym, &fee, amount, amount, e + 1, e + 3, 1, 0) {
                    let h = d.view().height;
                    for idx in 0..t.outputs.len() {
                        let c = (CoinID::new(t.hash_nosigs(), idx as u8), CoinDataHeight { coin_data: t.outputs[idx].clone(), height: h });
                        let mut ins = vec![c.clone()];
                        if c.1.coin_data.denom != Denom::Mel {
                            if let Some(f2) = d.spendable().into_iter().find(|(cc, x)| x.coin_data.denom == Denom::Mel && x.coin_data.value.0 > 5_000_000 && !t.inputs.contains(cc)) {
                                ins.push(f2);
                            } else {
                                continue;
                            }
                        }
                        if let Some(spd) = d.build(TxKind::Normal, &ins, vec![], 1, vec![], 0) {
                            forb.push((vec![t.clone(), spd], format!("block of a stake transaction and a spender of its output {}", idx)));
                        }
                    }
                }
            }
            if let Some(p) = d.random_pay() {
                for k in [0usize, 1, 5, 10, 11, 15, 16] {
                    let (m, name) = d.mutate_k(&p, k);
                    if name != "same" {
                        forb.push((vec![m], format!("block of one mutated payment ({})", name)));
                    }
                }
                let mut twin = p.clone();
                twin.sigs.push(vec![1u8; 1].into());
                forb.push((vec![p, twin], "block of a payment and its signature twin".into()));
            }
            for (f, name) in forb {
                if let Some(h) = honest_header(&s_new, &f, None) {
                    let set: HashSet<Transaction> = f.iter().cloned().collect();
                    d.w.block(sealed, &Block { header: h, transactions: set, proposer_action: None }, 0, extra(&name, &Some(h), None));
                }
            }
        }
        // 5. proofs of everything in the new state; restart it; the twin follows in lockstep
        proofs(&mut d.w, sealed);
        let t = d.w.restart(sealed);
        proofs(&mut d.w, t);
        // the twin must behave the same on direct calls too: same next batch verdicts (one probe batch) and same seal
        if let (St::S(a), St::S(bb)) = (d.w.states[sealed].clone(), d.w.states[t].clone()) {
            let _ = (a, bb);
            let na = d.w.next(sealed);
            let nt = d.w.next(t);
            if let Some(p) = { let save = d.cur; d.cur = na; let p = d.random_pay(); d.cur = save; p } {
                let key = format!("C08|{}|probe|{}", tag, blk.header.height.0);
                let (a2, _) = d.w.batch(na, &[p.clone()], 0, json!({"why": "restart-probe", "agreeKey": key, "prop": "C08"}));
                let (t2, _) = d.w.batch(nt, &[p], 0, json!({"why": "restart-probe (twin)", "agreeKey": key, "prop": "C08"}));
                let act = Some(ProposerAction { fee_multiplier_delta: 5, reward_dest: dest });
                let sa = d.w.seal(a2, act, json!({"agreeKey": format!("{}|seal", key), "prop": "C08"}));
                let sb = d.w.seal(t2, act, json!({"agreeKey": format!("{}|seal", key), "prop": "C08"}));
                let _ = (sa, sb);
            }
        }
        parent = sealed;
        twin = Some(t);
    }
}

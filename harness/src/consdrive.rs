//! Consensus proofs (C14): stake tables x signer subsets x signature variants against SealedState::confirm.
use crate::js;
use crate::wallet::{mk_coin, CovKind, Wallet};
use melstf::GenesisConfig;
use melstructs::*;
use novasmt::{Database, InMemoryCas};
use rand::{rngs::StdRng, Rng, SeedableRng};
use serde_json::json;
use std::collections::BTreeMap;

struct Stk {
    key: usize,
    w: u128,
    start: u64,
    end: u64,
}

fn run_table(out: &mut crate::Out, wal: &Wallet, table: &[Stk], variants: bool, r: &mut StdRng, fam: &str) {
    run_table_at(out, wal, table, variants, r, fam, 0)
}

/// the same at a sealed state of height `height` (the sealed genesis re-homed there through the public from_block)
fn run_table_at(out: &mut crate::Out, wal: &Wallet, table: &[Stk], variants: bool, r: &mut StdRng, fam: &str, height: u64) {
    let db = Database::new(InMemoryCas::default());
    let mut stakes = BTreeMap::new();
    for (i, s) in table.iter().enumerate() {
        stakes.insert(TxHash(tmelcrypt::hash_single([i as u8, 77])), StakeDoc { pubkey: wal.keys[s.key].0, e_start: s.start, e_post_end: s.end, syms_staked: CoinValue(s.w) });
    }
    let a = Address(tmelcrypt::hash_single(b"x"));
    let cfg = GenesisConfig { network: NetID::Custom02, init_coindata: mk_coin(a, 1000, Denom::Mel, &[]), stakes: stakes.clone(), init_fee_pool: CoinValue(0), init_fee_multiplier: 0 };
    let sealed = cfg.realize(&db).seal(None);
    let sealed = if height == 0 { sealed } else {
        let hd = sealed.header();
        let prev = Header { height: BlockHeight(height - 1), ..hd };
        let mut hist = sealed.raw_history_smt();
        hist.insert(tmelcrypt::hash_single(&stdcode::serialize(&BlockHeight(height - 1)).unwrap()).0, &stdcode::serialize(&prev).unwrap());
        let nh = Header { height: BlockHeight(height), previous: prev.hash(), history_hash: tmelcrypt::HashVal(hist.root_hash()), ..hd };
        let blk = Block { header: nh, transactions: Default::default(), proposer_action: None };
        match std::panic::catch_unwind(std::panic::AssertUnwindSafe(|| melstf::SealedState::from_block(&blk, &sealed.raw_stakes(), &db))) {
            Ok(s) => s,
            Err(_) => return,
        }
    };
    let hh = sealed.header().hash();
    let epoch = sealed.header().height.epoch();
    let stakes_j: Vec<_> = stakes.values().map(|sd| json!({"pk": hex::encode(sd.pubkey.0), "start": js::limbs_u64(sd.e_start), "end": js::limbs_u64(sd.e_post_end),
                                                           "syms": js::limbs_u128(sd.syms_staked.0)})).collect();
    let nk = wal.keys.len();
    for subset in 0..(1u32 << nk) {
        let signers: Vec<usize> = (0..nk).filter(|k| subset & (1 << k) != 0).collect();
        let nvar = if variants && !signers.is_empty() { 5 } else { 1 };
        for var in 0..nvar {
            let mut proof: ConsensusProof = BTreeMap::new();
            let victim = if signers.is_empty() { 0 } else { signers[r.gen_range(0..signers.len())] };
            for k in signers.iter() {
                let mut sig = wal.keys[*k].1.sign(&hh);
                if *k == victim {
                    match var {
                        1 => sig[3] ^= 1,                                             // corrupted
                        2 => sig = wal.keys[(*k + 1) % nk].1.sign(&hh),                // signed by another key
                        3 => sig = wal.keys[*k].1.sign(&tmelcrypt::hash_single(b"other header")), // over another header
                        4 => sig.truncate(10),                                         // malformed
                        _ => {}
                    }
                }
                proof.insert(wal.keys[*k].0, sig.into());
            }
            // oracle facts: validity of each signature, from the primitive
            let sj: Vec<_> = proof.iter().map(|(k, s)| json!({"pk": hex::encode(k.0), "valid": k.verify(&hh, s)})).collect();
            let res = std::panic::catch_unwind(std::panic::AssertUnwindSafe(|| sealed.confirm(proof.clone()).is_some()));
            out.put(json!({"ev": "confirm", "fam": fam, "stakes": stakes_j, "epoch": epoch, "signers": sj, "variant": var,
                           "res": match res { Ok(true) => "some", Ok(false) => "none", Err(_) => "panic" }}));
        }
    }
}

pub fn consensus(out: &mut crate::Out, seed: u64, thorough: bool) {
    let mut r = StdRng::seed_from_u64(seed);
    let wal = Wallet::new(3, &mut r);
    let _ = CovKind::True;
    // windows relative to epoch 0: active (0,1) (0,5), not yet (1,3), expired is impossible at epoch 0 with start<=end... use (0,0): start<=e but end>e false
    let windows: [(u64, u64); 3] = [(0, 2), (1, 3), (0, 0)];
    let weights: [u128; 4] = [0, 1, 2, 3];
    // exhaustive for 1 and 2 stakes
    let mut opts: Vec<(usize, u128, (u64, u64))> = vec![];
    for k in 0..3 {
        for w in weights.iter() {
            for win in windows.iter() {
                opts.push((k, *w, *win));
            }
        }
    }
    for a in opts.iter() {
        run_table(out, &wal, &[Stk { key: a.0, w: a.1, start: a.2 .0, end: a.2 .1 }], true, &mut r, "exh1");
    }
    for a in opts.iter() {
        for b in opts.iter() {
            run_table(out, &wal, &[Stk { key: a.0, w: a.1, start: a.2 .0, end: a.2 .1 }, Stk { key: b.0, w: b.1, start: b.2 .0, end: b.2 .1 }], false, &mut r, "exh2");
        }
    }
    // stake windows that are empty, inverted (start after end: active in no epoch) or end at the largest epoch
    let odd: [(u64, u64); 5] = [(3, 1), (1, 0), (0, u64::MAX), (u64::MAX, 0), (u64::MAX - 1, u64::MAX)];
    for a in opts.iter().filter(|o| o.1 > 0 && o.2 == (0, 2)) {
        for win in odd.iter() {
            for w in [1u128, 3, 1000] {
                run_table(out, &wal, &[Stk { key: a.0, w: a.1, start: 0, end: 2 }, Stk { key: (a.0 + 1) % 3, w, start: win.0, end: win.1 }], false, &mut r, "odd-windows");
            }
        }
    }
    // states at other heights, around epoch boundaries: every window position relative to the state's epoch
    for height in [199_999u64, 200_000, 200_001, 400_000, 599_999] {
        let e = height / 200_000;
        let wins: Vec<(u64, u64)> = vec![(e, e + 2), (e + 1, e + 3), (e, e), (e.saturating_sub(1), e), (e.saturating_sub(1), e + 1), (0, e), (0, e + 1), (e + 3, e + 1), (e, u64::MAX)];
        for wa in wins.iter() {
            for wb in wins.iter() {
                for (x, y) in [(1u128, 1u128), (1, 3), (5, 2)] {
                    run_table_at(out, &wal, &[Stk { key: 0, w: x, start: wa.0, end: wa.1 }, Stk { key: 1, w: y, start: wb.0, end: wb.1 }], false, &mut r, "epochs", height);
                }
            }
        }
    }
    // random larger tables, including huge weights
    let n = if thorough { 6000 } else { 600 };
    for i in 0..n {
        let cnt = r.gen_range(3..=6);
        let table: Vec<Stk> = (0..cnt)
            .map(|_| {
                let win = windows[r.gen_range(0..3)];
                let w = match r.gen_range(0..6) { 0 => 0, 1 => 1u128 << 100, 2 => (1u128 << 100) + 1, 3 => u128::MAX / 8, _ => r.gen_range(1..10) };
                Stk { key: r.gen_range(0..3), w, start: win.0, end: win.1 }
            })
            .collect();
        run_table(out, &wal, &table, i % 4 == 0, &mut r, "random");
    }
}

//! Fee multiplier grid (C17): seal(Some{delta}) from genesis states with every multiplier / delta of the grid.
use crate::js;
use crate::wallet::mk_coin;
use melstf::GenesisConfig;
use melstructs::*;
use novasmt::{Database, InMemoryCas};
use rand::{rngs::StdRng, Rng, SeedableRng};
use serde_json::json;

fn seal_with(db: &Database<InMemoryCas>, net: NetID, m: u128, delta: Option<i8>) -> Result<u128, ()> {
    let a = Address(tmelcrypt::hash_single(b"x"));
    let cfg = GenesisConfig { network: net, init_coindata: mk_coin(a, 1000, Denom::Mel, &[]), stakes: Default::default(), init_fee_pool: CoinValue(1 << 20), init_fee_multiplier: m };
    std::panic::catch_unwind(std::panic::AssertUnwindSafe(|| {
        let u = cfg.realize(db);
        let act = delta.map(|d| ProposerAction { fee_multiplier_delta: d, reward_dest: a });
        u.seal(act).header().fee_multiplier
    }))
    .map_err(|_| ())
}

/// seal(Some{delta}) of the block at `height` (>= 2) of a chain whose state was fabricated at height - 1 through from_block
fn seal_at(db: &Database<InMemoryCas>, net: NetID, height: u64, m: u128, delta: Option<i8>) -> Result<u128, ()> {
    let a = Address(tmelcrypt::hash_single(b"x"));
    let cfg = GenesisConfig { network: net, init_coindata: mk_coin(a, 1000, Denom::Mel, &[]), stakes: Default::default(), init_fee_pool: CoinValue(1 << 20), init_fee_multiplier: m };
    std::panic::catch_unwind(std::panic::AssertUnwindSafe(|| {
        let s0 = cfg.realize(db).seal(None);
        let hd = s0.header();
        let prev = Header { height: BlockHeight(height - 2), ..hd };
        let mut hist = s0.raw_history_smt();
        hist.insert(tmelcrypt::hash_single(&stdcode::serialize(&BlockHeight(height - 2)).unwrap()).0, &stdcode::serialize(&prev).unwrap());
        let nh = Header { height: BlockHeight(height - 1), previous: prev.hash(), history_hash: tmelcrypt::HashVal(hist.root_hash()), ..hd };
        let t = melstf::SealedState::from_block(&Block { header: nh, transactions: Default::default(), proposer_action: None }, &s0.raw_stakes(), db);
        let u = t.next_unsealed();
        let act = delta.map(|d| ProposerAction { fee_multiplier_delta: d, reward_dest: a });
        let sealed = u.seal(act);
        assert_eq!(sealed.header().height.0, height);
        sealed.header().fee_multiplier
    }))
    .map_err(|_| ())
}

pub fn grid(out: &mut crate::Out, seed: u64, thorough: bool) {
    let db = Database::new(InMemoryCas::default());
    let mut r = StdRng::seed_from_u64(seed);
    let all: Vec<i16> = (-128..=127).collect();
    let few: Vec<i16> = vec![-128, -127, -65, -64, -63, -2, -1, 0, 1, 2, 63, 64, 65, 126, 127];
    let mut ms: Vec<(u128, bool)> = vec![];
    let small = if thorough { 4096 } else { 520 };
    for m in 0..=small {
        ms.push((m, true));
    }
    for k in 0..128u32 {
        for j in -4i128..=4 {
            let v = (1u128 << k) as i128 as u128;
            let m = if j < 0 { v.checked_sub((-j) as u128) } else { v.checked_add(j as u128) };
            if let Some(m) = m {
                if m > small {
                    ms.push((m, thorough && k <= 70));
                }
            }
        }
    }
    ms.push((u128::MAX, false));
    ms.push((u128::MAX - 1, false));
    for _ in 0..(if thorough { 2000 } else { 200 }) {
        ms.push((r.gen::<u128>() >> r.gen_range(0..128), false));
    }
    for (net, tip901) in [(NetID::Custom02, true), (NetID::Mainnet, false)] {
        for (m, full) in ms.iter() {
            let ds = if *full { &all } else { &few };
            let mut outs = vec![];
            let mut panics = vec![];
            for d in ds.iter() {
                match seal_with(&db, net, *m, Some(*d as i8)) {
                    Ok(x) => { outs.push(js::limbs_u128(x)); panics.push(false); }
                    Err(_) => { outs.push(json!([])); panics.push(true); }
                }
            }
            let none = seal_with(&db, net, *m, None);
            out.put(json!({"ev": "feemult", "fam": if tip901 { "post-901" } else { "pre-901" }, "net": u8::from(net), "height": 0, "m": js::limbs_u128(*m), "deltas": ds,
                           "outs": outs, "panics": panics, "noaction": none.map(js::limbs_u128).unwrap_or(json!([])), "noactionPanic": none.is_err()}));
        }
    }
    // activation heights: the floor of 2 applies from TIP-901 on (Mainnet 42700; Testnet 500), nothing else switches it
    for (net, heights) in [(NetID::Mainnet, vec![3u64, 1000, 42699, 42700, 42701, 100000, 179999, 180000, 180001, 829999]), (NetID::Testnet, vec![3, 499, 500, 501, 42700])] {
        for h in heights {
            for m in [0u128, 1, 2, 3, 100, 127, 128, 255, 256, 257, 1000, 1 << 40] {
                let mut outs = vec![];
                let mut panics = vec![];
                for d in few.iter() {
                    match seal_at(&db, net, h, m, Some(*d as i8)) {
                        Ok(x) => { outs.push(js::limbs_u128(x)); panics.push(false); }
                        Err(_) => { outs.push(json!([])); panics.push(true); }
                    }
                }
                let none = seal_at(&db, net, h, m, None);
                out.put(json!({"ev": "feemult", "fam": "heights", "net": u8::from(net), "height": h, "m": js::limbs_u128(m), "deltas": few,
                               "outs": outs, "panics": panics, "noaction": none.map(js::limbs_u128).unwrap_or(json!([])), "noactionPanic": none.is_err()}));
            }
        }
    }
    // long runs of extreme deltas: the multiplier of one step feeds the next
    for (net, tip901) in [(NetID::Custom02, true), (NetID::Mainnet, false)] {
        for start in [0u128, 1, 2, 3, 255, 256, 1 << 16, 1 << 64, u128::MAX - 5, 1_000_000] {
            for pattern in 0..4 {
                let mut m = start;
                let mut ds = vec![];
                let mut outs = vec![];
                let mut panics = vec![];
                let mut ins = vec![];
                for i in 0..64 {
                    let d: i8 = match pattern { 0 => -128, 1 => 127, 2 => if i % 2 == 0 { -128 } else { 127 }, _ => r.gen() };
                    ins.push(js::limbs_u128(m));
                    ds.push(d as i16);
                    match seal_with(&db, net, m, Some(d)) {
                        Ok(x) => { outs.push(js::limbs_u128(x)); panics.push(false); m = x; }
                        Err(_) => { outs.push(json!([])); panics.push(true); }
                    }
                }
                out.put(json!({"ev": "feerun", "fam": "run", "net": u8::from(net), "height": 0, "ins": ins, "deltas": ds, "outs": outs, "panics": panics}));
                let _ = tip901;
            }
        }
    }
}

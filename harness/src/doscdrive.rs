//! ERG minting (C18): real MelPoW proofs under both hash functions, every coin age, ERG amounts around the reward bound,
//! corrupted proofs / seeds / encodings, the mainnet age rule.
use crate::drive::Driver;
use crate::wallet::{mk_coin, CovKind};
use melstf::{LegacyMelPowHash, SmtMapping, Tip910MelPowHash};
use melstructs::*;
use novasmt::InMemoryCas;
use serde_json::json;
use std::collections::BTreeMap;

fn header_at(d: &Driver, h: u64) -> Option<Header> {
    let v = d.view();
    let hist: SmtMapping<InMemoryCas, BlockHeight, Header> = SmtMapping::new(v.history.clone());
    hist.get(&BlockHeight(h))
}

fn gen_proof(puzzle: &tmelcrypt::HashVal, difficulty: usize, tip910: bool) -> Vec<u8> {
    if tip910 {
        melpow::Proof::generate(puzzle, difficulty, Tip910MelPowHash).to_bytes()
    } else {
        melpow::Proof::generate(puzzle, difficulty, LegacyMelPowHash).to_bytes()
    }
}

/// the bound the transaction format's helper functions give (workload construction only: the specification computes its own)
fn bound(d: &Driver, coin_h: u64, difficulty: u32, tip910: bool) -> u128 {
    let h = d.view().height.0;
    let work: u128 = (1u128 << difficulty) * if tip910 { 100 } else { 1 };
    let speed = work / (h - coin_h).max(1) as u128;
    let prev = header_at(d, h - 1).map(|x| x.dosc_speed).unwrap_or(1_000_000);
    melstf::dosc_to_erg(BlockHeight(h), melstf::calculate_reward(speed, prev, difficulty, tip910))
}

fn mint_tx(d: &mut Driver, coin: &(CoinID, CoinDataHeight), data: Vec<u8>, erg: u128) -> Option<Transaction> {
    mint_tx_n(d, std::slice::from_ref(coin), data, erg)
}

/// a mint spending several coins: the first input is the one the work is measured against
fn mint_tx_n(d: &mut Driver, coins: &[(CoinID, CoinDataHeight)], data: Vec<u8>, erg: u128) -> Option<Transaction> {
    let coin = &coins[0];
    let _ = coin;
    let a = d.wal.address(CovKind::New(0));
    let mut fixed = vec![];
    if erg > 0 {
        fixed.push(mk_coin(a, erg, Denom::Erg, &[]));
    }
    // build() balances every denomination of the inputs; the ERG output is extra (mint), so add it after balancing
    let mut t = d.build(TxKind::DoscMint, coins, vec![], 1, data, 0)?;
    t.outputs.extend(fixed);
    // re-fee and re-sign: fee grows with the extra output
    for _ in 0..4 {
        let need = crate::wallet::min_fee(&t, d.fee_mult());
        let have = t.fee.0;
        if need > have {
            let diff = need - have;
            if let Some(o) = t.outputs.iter_mut().find(|o| o.denom == Denom::Mel && o.value.0 > diff) {
                o.value.0 -= diff;
                t.fee.0 = need;
            }
        }
        d.resign(&mut t);
    }
    Some(t)
}

pub fn dosc_history(out: &mut crate::Out, tag: &str, seed: u64, net: NetID, thorough: bool) {
    let mainnet = net == NetID::Mainnet;
    let mut d = Driver::new(out, tag, seed, net, 100, Denom::Mel, 1u128 << 60, 1 << 40, BTreeMap::new());
    d.wal.simple = true;
    d.seal_next(Some(false));
    // a handful of MEL coins created at height 1
    let a = d.wal.address(CovKind::New(0));
    let sp = d.spendable();
    let fixed: Vec<CoinData> = (0..30).map(|i| mk_coin(a, 50_000_000 + i, Denom::Mel, &[])).collect();
    if let Some(t) = d.build(TxKind::Normal, &[sp[0].clone()], fixed, 1, vec![], 0) {
        d.apply(&[t], 0, json!({"why": "coins to mint from"}));
    }
    // two forks of the block that creates the coins (with / without a proposer action): the same coin, another header at its
    // creation height, hence another puzzle; a mint worked out for fork A is no mint on fork B, before and after A has seen it
    {
        let u = d.cur;
        let dest = d.wal.address(CovKind::New(1));
        let sa = d.w.seal(u, Some(ProposerAction { fee_multiplier_delta: 0, reward_dest: dest }), json!({"why": "fork A of the coin-creating block"}));
        let sb = d.w.seal(u, None, json!({"why": "fork B of the coin-creating block"}));
        if let (Some(sa), Some(sb)) = (sa, sb) {
            let (ua, ub) = (d.w.next(sa), d.w.next(sb));
            d.cur = ua;
            let h = d.view().height.0;
            let coin = d.spendable().into_iter().find(|(_, x)| x.coin_data.denom == Denom::Mel && x.coin_data.value.0 >= 50_000_000 && x.coin_data.value.0 < 50_000_100 && x.height.0 < h);
            if let (Some(coin), false) = (coin, mainnet) {
                if let Some(seed_header) = header_at(&d, coin.1.height.0) {
                    let puzzle = tmelcrypt::hash_keyed(seed_header.hash(), &stdcode::serialize(&coin.0).unwrap());
                    for (tip910, difficulty) in [(false, 16usize), (true, 10usize)] {
                        let b = bound(&d, coin.1.height.0, difficulty as u32, tip910);
                        let data = stdcode::serialize(&(difficulty as u32, gen_proof(&puzzle, difficulty, tip910))).unwrap();
                        if let Some(t) = mint_tx(&mut d, &coin, data, b) {
                            d.w.batch(ub, &[t.clone()], 0, json!({"why": "mint worked out for fork A, presented to fork B first"}));
                            d.w.batch(ua, &[t.clone()], 0, json!({"why": "mint worked out for fork A, on fork A"}));
                            d.w.batch(ub, &[t.clone()], 0, json!({"why": "mint worked out for fork A, presented to fork B after fork A accepted it"}));
                            d.w.batch(ub, &[t], 2, json!({"why": "the same once more on fork B (thread pool)"}));
                        }
                    }
                }
            }
            d.cur = u;
        }
    }
    let mut sealed = d.seal_next(Some(true)).unwrap();
    for _ in 0..2 {
        sealed = d.seal_next(None).unwrap();
    }
    if mainnet {
        // ages 98, 99, 100, 101 around the mainnet minimum
        let j = d.w.jump(sealed, 98);
        d.cur = d.w.next(j);
        d.block_start = d.cur;
        d.block_batches.clear();
    }
    let rounds = if mainnet { 4 } else if thorough { 6 } else { 3 };
    let (dl, dt) = if thorough { (20usize, 14usize) } else { (18usize, 12usize) };
    for round in 0..rounds {
        let h = d.view().height.0;
        let coins: Vec<(CoinID, CoinDataHeight)> = d.spendable().into_iter().filter(|(_, x)| x.coin_data.denom == Denom::Mel && x.coin_data.value.0 >= 50_000_000 && x.coin_data.value.0 < 50_000_100 && x.height.0 < h).collect();
        let mut it = coins.into_iter();
        let mut round_mints: Vec<Transaction> = vec![];
        for (tip910, difficulty) in [(false, dl), (true, dt)] {
            let Some(coin) = it.next() else { break };
            let Some(seed_header) = header_at(&d, coin.1.height.0) else { continue };
            let puzzle = tmelcrypt::hash_keyed(seed_header.hash(), &stdcode::serialize(&coin.0).unwrap());
            let proof = gen_proof(&puzzle, difficulty, tip910);
            let b = bound(&d, coin.1.height.0, difficulty as u32, tip910);
            let good = stdcode::serialize(&(difficulty as u32, proof.clone())).unwrap();
            let name = if tip910 { "tip910" } else { "legacy" };
            // side branches: amounts around the bound and corruptions
            let mut variants: Vec<(Vec<u8>, u128, String)> = vec![
                (good.clone(), b + 1, format!("{} proof, ERG = bound + 1", name)),
                (good.clone(), b.saturating_sub(1), format!("{} proof, ERG = bound - 1", name)),
                (good.clone(), 0, format!("{} proof, no ERG", name)),
                (good.clone(), b.saturating_mul(2) + 5, format!("{} proof, ERG = 2 * bound + 5", name)),
            ];
            let mut flipped = proof.clone();
            let mid = flipped.len() / 2;
            flipped[mid] ^= 1;
            variants.push((stdcode::serialize(&(difficulty as u32, flipped)).unwrap(), b, "proof with one byte flipped".into()));
            variants.push((stdcode::serialize(&(difficulty as u32 + 1, proof.clone())).unwrap(), b, "difficulty stated one higher".into()));
            variants.push((stdcode::serialize(&(difficulty as u32 - 1, proof.clone())).unwrap(), b, "difficulty stated one lower".into()));
            variants.push((good[..good.len() / 2].to_vec(), b, "data truncated".into()));
            variants.push((vec![], b, "empty data".into()));
            variants.push((vec![9, 9, 9, 9, 9, 9, 9], b, "undecodable data".into()));
            let other_puzzle = tmelcrypt::hash_keyed(seed_header.hash(), &stdcode::serialize(&CoinID::zero_zero()).unwrap());
            variants.push((stdcode::serialize(&(8u32, gen_proof(&other_puzzle, 8, tip910))).unwrap(), 0, "valid proof for another coin's puzzle".into()));
            if let Some(oh) = header_at(&d, h - 1) {
                if oh.hash() != seed_header.hash() {
                    let p2 = tmelcrypt::hash_keyed(oh.hash(), &stdcode::serialize(&coin.0).unwrap());
                    variants.push((stdcode::serialize(&(8u32, gen_proof(&p2, 8, tip910))).unwrap(), 0, "valid proof seeded from another height's header".into()));
                }
            }
            variants.push((stdcode::serialize(&(0u32, Vec::<u8>::new())).unwrap(), 0, "difficulty 0 with an empty proof".into()));
            variants.push((stdcode::serialize(&(80u32, proof.clone())).unwrap(), 0, "difficulty 80 with a short proof".into()));
            variants.push((stdcode::serialize(&(200u32, proof.clone())).unwrap(), 0, "difficulty 200".into()));
            for (data, erg, why) in variants {
                if let Some(t) = mint_tx(&mut d, &coin, data, erg) {
                    d.w.batch(d.cur, &[t], 0, json!({"why": why, "age": h - coin.1.height.0}));
                }
            }
            // the main line: exactly the bound (both mints of the round go into ONE batch, see below)
            if let Some(t) = mint_tx(&mut d, &coin, good, b) {
                d.w.batch(d.cur, &[t.clone()], 0, json!({"why": format!("{} proof, ERG = bound ({})", name, b), "age": h - coin.1.height.0}));
                round_mints.push(t);
            }
        }
        // two mints with different speeds in one batch, in both orders and under several pool sizes: the recorded DOSC speed
        // must be the maximum whatever the order of reduction
        if !round_mints.is_empty() {
            let key = format!("C03|{}|mints|{}", tag, round);
            let mut rev = round_mints.clone();
            rev.reverse();
            for (i, (batch, threads)) in [(round_mints.clone(), 1usize), (rev.clone(), 1), (round_mints.clone(), 16), (rev, 2)].iter().enumerate() {
                if i == 0 {
                    continue;
                }
                d.w.batch(d.cur, batch, *threads, json!({"why": "two mints in one batch", "agreeKey": key}));
            }
            d.apply(&round_mints, 0, json!({"why": "two mints in one batch (main line)", "agreeKey": key}));
        }
        // a fast mint: a coin created in the previous block, TIP-910 difficulty 14 -> speed 1638400 > 10^6 raises the recorded DOSC speed;
        // a payment follows in the same block (the raised speed must survive later batches of the block), and later rounds
        // mint older coins against the raised speed of the previous block
        if round == 1 || (thorough && round == 3) {
            // several fast mints of different speeds next to other transactions in ONE batch, in many orders and pool sizes: the
            // recorded speed is the maximum over the batch whatever the order of reduction (side branches only)
            {
                let h = d.view().height.0;
                let youngs: Vec<(CoinID, CoinDataHeight)> = d.spendable().into_iter().filter(|(_, x)| x.coin_data.denom == Denom::Mel && x.coin_data.value.0 > 10_000_000 && x.height.0 + 1 == h).take(3).collect();
                let mut mints: Vec<Transaction> = vec![];
                for (i, coin) in youngs.iter().enumerate() {
                    if let Some(seed_header) = header_at(&d, coin.1.height.0) {
                        let puzzle = tmelcrypt::hash_keyed(seed_header.hash(), &stdcode::serialize(&coin.0).unwrap());
                        let difficulty = [15usize, 14, 16][i % 3];
                        let b = bound(&d, coin.1.height.0, difficulty as u32, true);
                        let data = stdcode::serialize(&(difficulty as u32, gen_proof(&puzzle, difficulty, true))).unwrap();
                        if let Some(t) = mint_tx(&mut d, coin, data, b) {
                            mints.push(t);
                        }
                    }
                }
                if mints.len() >= 2 {
                    let used: Vec<CoinID> = mints.iter().flat_map(|t| t.inputs.clone()).collect();
                    let mut others: Vec<Transaction> = vec![];
                    for _ in 0..12 {
                        if let Some(p) = d.random_pay() {
                            if !p.inputs.iter().any(|c| used.contains(c) || others.iter().any(|o| o.inputs.contains(c))) {
                                others.push(p);
                            }
                        }
                        if others.len() >= 5 { break; }
                    }
                    let key = format!("C03|{}|fastmints|{}", tag, round);
                    let n = mints.len() + others.len();
                    let all: Vec<Transaction> = mints.iter().cloned().chain(others.iter().cloned()).collect();
                    let mut orders: Vec<Vec<usize>> = vec![(0..n).collect(), (0..n).rev().collect()];
                    // the mints adjacent in both orders at the front, in the middle and at the back
                    let m = mints.len();
                    let mut mid: Vec<usize> = (m..n).collect();
                    for (k, i) in (0..m).enumerate() { mid.insert((n - m) / 2 + k, i); }
                    orders.push(mid.clone());
                    let mut midr = mid.clone(); midr.reverse(); orders.push(midr);
                    let mut back: Vec<usize> = (m..n).collect(); back.extend((0..m).rev()); orders.push(back);
                    for _ in 0..4 { use rand::seq::SliceRandom; let mut o: Vec<usize> = (0..n).collect(); o.shuffle(&mut d.r); orders.push(o); }
                    for (oi, o) in orders.iter().enumerate() {
                        let batch: Vec<Transaction> = o.iter().map(|i| all[*i].clone()).collect();
                        for threads in [[1usize, 2], [4, 8], [16, 0]][oi % 3] {
                            d.w.batch(d.cur, &batch, threads, json!({"why": format!("{} fast mints of different speeds among {} transactions, order {}", m, n, oi), "agreeKey": key}));
                        }
                    }
                    // and one at a time
                    let mut s1 = d.cur;
                    let mut allok = true;
                    for t in all.iter() {
                        let (nid, ok) = d.w.batch(s1, std::slice::from_ref(t), 0, json!({"why": "fast mints one at a time"}));
                        if ok { s1 = nid; } else { allok = false; }
                    }
                    if allok {
                        d.w.batch(s1, &[], 0, json!({"why": "fast mints: fold end", "agreeKey": key, "fold": true}));
                    }
                }
            }
            let h = d.view().height.0;
            let young = d.spendable().into_iter().find(|(_, x)| x.coin_data.denom == Denom::Mel && x.coin_data.value.0 > 10_000_000 && x.height.0 + 1 == h);
            if let (Some(coin), Some(seed_header)) = (young.clone(), young.and_then(|c| header_at(&d, c.1.height.0))) {
                let puzzle = tmelcrypt::hash_keyed(seed_header.hash(), &stdcode::serialize(&coin.0).unwrap());
                let difficulty = 14usize;
                let proof = gen_proof(&puzzle, difficulty, true);
                let b = bound(&d, coin.1.height.0, difficulty as u32, true);
                let good = stdcode::serialize(&(difficulty as u32, proof)).unwrap();
                if let Some(t) = mint_tx(&mut d, &coin, good.clone(), b + 1) {
                    d.w.batch(d.cur, &[t], 0, json!({"why": "fast mint, ERG = bound + 1"}));
                }
                if let Some(t) = mint_tx(&mut d, &coin, good, b) {
                    d.apply(&[t], 0, json!({"why": format!("fast mint (speed above the recorded one), ERG = bound ({})", b)}));
                }
                if let Some(p) = d.random_pay() {
                    d.apply(&[p], 0, json!({"why": "payment after the fast mint in the same block"}));
                }
            }
        }
        // mints spending two coins of different ages: the first input alone decides puzzle, age, speed and reward bound
        {
            let h = d.view().height.0;
            let sp: Vec<(CoinID, CoinDataHeight)> = d.spendable().into_iter().filter(|(_, x)| x.coin_data.denom == Denom::Mel && x.coin_data.value.0 > 10_000_000 && x.height.0 < h).collect();
            let old = sp.iter().min_by_key(|(_, x)| x.height.0).cloned();
            let young = sp.iter().max_by_key(|(_, x)| x.height.0).cloned();
            if let (Some(old), Some(young)) = (old, young) {
                if old.1.height != young.1.height {
                    for (first, second, what) in [(&young, &old, "young coin first, old coin second"), (&old, &young, "old coin first, young coin second")] {
                        if let Some(seed_header) = header_at(&d, first.1.height.0) {
                            let puzzle = tmelcrypt::hash_keyed(seed_header.hash(), &stdcode::serialize(&first.0).unwrap());
                            let difficulty = 10usize;
                            let data = stdcode::serialize(&(difficulty as u32, gen_proof(&puzzle, difficulty, true))).unwrap();
                            let b = bound(&d, first.1.height.0, difficulty as u32, true);
                            for (erg, ew) in [(b, "bound"), (b + 1, "bound + 1")] {
                                if let Some(t) = mint_tx_n(&mut d, &[first.clone(), second.clone()], data.clone(), erg) {
                                    d.w.batch(d.cur, &[t], 0, json!({"why": format!("two-input mint, {}, ERG = {} ({})", what, ew, erg), "ages": [h - first.1.height.0, h - second.1.height.0]}));
                                }
                            }
                        }
                    }
                }
            }
        }
        // a coin created in this very block cannot seed a puzzle
        if round == 0 {
            let sp = d.spendable();
            if let Some(c) = sp.iter().find(|(_, x)| x.height.0 == h && x.coin_data.denom == Denom::Mel && x.coin_data.value.0 > 1_000_000).cloned() {
                let p = tmelcrypt::hash_keyed(tmelcrypt::hash_single(b"none"), &stdcode::serialize(&c.0).unwrap());
                if let Some(t) = mint_tx(&mut d, &c, stdcode::serialize(&(8u32, gen_proof(&p, 8, false))).unwrap(), 0) {
                    d.w.batch(d.cur, &[t], 0, json!({"why": "coin created in this block"}));
                }
            }
        }
        // a fresh coin for the next round's fast mint
        if let Some(src) = d.spendable().into_iter().find(|(_, x)| x.coin_data.denom == Denom::Mel && x.coin_data.value.0 > 200_000_000) {
            let a = d.wal.address(CovKind::New(0));
            if let Some(t) = d.build(TxKind::Normal, &[src], vec![mk_coin(a, 60_000_000, Denom::Mel, &[]), mk_coin(a, 61_000_000, Denom::Mel, &[]), mk_coin(a, 62_000_000, Denom::Mel, &[])], 1, vec![], 0) {
                d.apply(&[t], 0, json!({"why": "fresh coin"}));
            }
        }
        d.seal_next(if round % 2 == 0 { Some(true) } else { None });
    }
}

//! Heap layout and value conversions (C10): one-instruction probes `LoadImm(k)` run through the public
//! Covenant::execute(tx, env) on random transactions / environments with boundary values.
use crate::js;
use crate::lj;
use melstructs::*;
use melvm::{opcode::OpCode, Covenant, CovenantEnv};
use rand::{rngs::StdRng, Rng, SeedableRng};
use serde_json::{json, Value as J};
use tmelcrypt::HashVal;

fn rv(r: &mut StdRng) -> u128 {
    match r.gen_range(0..8) {
        0 => 0,
        1 => 1,
        2 => u64::MAX as u128,
        3 => (u64::MAX as u128) + 1,
        4 => (1u128 << 64) + 5,
        5 => 1u128 << 120,
        6 => u128::MAX,
        _ => r.gen::<u128>() >> r.gen_range(0..128),
    }
}
fn rh(r: &mut StdRng) -> HashVal {
    let mut b = [0u8; 32];
    r.fill(&mut b);
    HashVal(b)
}
fn rdenom(r: &mut StdRng) -> Denom {
    match r.gen_range(0..5) {
        0 => Denom::Mel,
        1 => Denom::Sym,
        2 => Denom::Erg,
        3 => Denom::NewCustom,
        _ => Denom::Custom(TxHash(rh(r))),
    }
}
fn rbytes(r: &mut StdRng, n: usize) -> Vec<u8> {
    (0..r.gen_range(0..=n)).map(|_| r.gen()).collect()
}
fn rcoin(r: &mut StdRng) -> CoinData {
    CoinData { covhash: Address(rh(r)), value: CoinValue(rv(r)), denom: rdenom(r), additional_data: rbytes(r, 6).into() }
}

pub fn env(out: &mut crate::Out, seed: u64, n: u64) {
    let mut r = StdRng::seed_from_u64(seed);
    let kinds = [TxKind::Normal, TxKind::Stake, TxKind::DoscMint, TxKind::Swap, TxKind::LiqDeposit, TxKind::LiqWithdraw, TxKind::Faucet];
    let nets = [NetID::Testnet, NetID::Custom02, NetID::Custom08, NetID::Mainnet];
    for _ in 0..n {
        let tx = Transaction {
            kind: kinds[r.gen_range(0..7)],
            inputs: (0..r.gen_range(0..4)).map(|_| CoinID::new(TxHash(rh(&mut r)), r.gen())).collect(),
            outputs: (0..r.gen_range(0..4)).map(|_| rcoin(&mut r)).collect(),
            fee: CoinValue(rv(&mut r)),
            covenants: (0..r.gen_range(0..3)).map(|_| rbytes(&mut r, 8).into()).collect(),
            data: rbytes(&mut r, 8).into(),
            sigs: (0..r.gen_range(0..3)).map(|_| rbytes(&mut r, 8).into()).collect(),
        };
        let hdr = Header { network: nets[r.gen_range(0..4)], previous: rh(&mut r), height: BlockHeight((r.gen::<u32>() >> 1) as u64), history_hash: rh(&mut r), coins_hash: rh(&mut r),
                           transactions_hash: rh(&mut r), fee_pool: CoinValue(rv(&mut r)), fee_multiplier: rv(&mut r), dosc_speed: rv(&mut r), pools_hash: rh(&mut r), stakes_hash: rh(&mut r) };
        let penv = CovenantEnv { parent_coinid: CoinID::new(TxHash(rh(&mut r)), r.gen()), parent_cdh: CoinDataHeight { coin_data: rcoin(&mut r), height: BlockHeight((r.gen::<u32>() >> 1) as u64) },
                                 spender_index: r.gen(), last_header: hdr };
        let withenv = r.gen_bool(0.8);
        let mut slots: Vec<J> = vec![];
        for k in 0..12u16 {
            let c = Covenant::from_ops(&[OpCode::LoadImm(k)]);
            let res = std::panic::catch_unwind(std::panic::AssertUnwindSafe(|| c.execute(&tx, if withenv { Some(penv.clone()) } else { None })));
            slots.push(match res {
                Ok(Some(v)) => js::value(&v),
                Ok(None) => js::fail_value(),
                Err(_) => json!({"t": "panic", "v": []}),
            });
        }
        let cd = &penv.parent_cdh.coin_data;
        let txj = lj::tx_j(&tx, &crate::vm::Facts::new(), json!({"decoded": false, "difficulty": [], "parsed": false, "proof": "none"}));
        out.put(json!({"ev": "env", "fam": "env", "tx": txj, "withenv": withenv,
                       "env": {"ptxb": penv.parent_coinid.txhash.0 .0.to_vec(), "pidx": penv.parent_coinid.index, "covb": cd.covhash.0 .0.to_vec(), "val": js::limbs_u128(cd.value.0),
                               "denomb": cd.denom.to_bytes().to_vec(), "data": cd.additional_data.to_vec(), "h": penv.parent_cdh.height.0, "sidx": penv.spender_index,
                               "hdr": lj::header_j(&hdr)},
                       "slots": slots}));
    }
}

//! Bytecode codec drivers (C12): from_bytes / to_ops / to_bytes / weight on enumerated and random byte strings.
use crate::{js, vm, Out};
use melvm::{opcode::OpCode, Covenant};
use rand::{rngs::StdRng, Rng};
use serde_json::{json, Value as J};
use std::panic::{catch_unwind, AssertUnwindSafe};

pub fn dec_record(fam: &str, b: &[u8]) -> J {
    let r = catch_unwind(AssertUnwindSafe(|| match Covenant::from_bytes(b) {
        Ok(c) => {
            let ops = c.to_ops();
            let re = c.to_bytes().to_vec();
            let w = c.weight();
            let wb = melvm::covenant_weight_from_bytes(b);
            Some((ops, re, w, wb))
        }
        Err(_) => None,
    }));
    match r {
        Ok(Some((ops, re, w, wb))) => json!({"ev":"dec","fam":fam,"bytes":b,"ok":true,"panic":false,"ops":js::ops(&ops),"re":re,
                                              "weight":js::limbs_u128(w),"wbytes":js::limbs_u128(wb)}),
        Ok(None) => {
            let wb = catch_unwind(AssertUnwindSafe(|| melvm::covenant_weight_from_bytes(b))).unwrap_or(u128::MAX);
            json!({"ev":"dec","fam":fam,"bytes":b,"ok":false,"panic":false,"ops":[],"re":[],"weight":[],"wbytes":js::limbs_u128(wb)})
        }
        Err(_) => json!({"ev":"dec","fam":fam,"bytes":b,"ok":false,"panic":true,"ops":[],"re":[],"weight":[],"wbytes":[]}),
    }
}

pub fn enc_record(fam: &str, ops: &[OpCode]) -> J {
    let r = catch_unwind(AssertUnwindSafe(|| {
        let c = Covenant::from_ops(ops);
        let b = c.to_bytes().to_vec();
        let back = Covenant::from_bytes(&b).ok().map(|c| c.to_ops());
        (b, back)
    }));
    match r {
        Ok((b, back)) => json!({"ev":"enc","fam":fam,"ops":js::ops(ops),"panic":false,"bytes":b,
                                 "ok2":back.is_some(),"ops2":back.map(|o| js::ops(&o)).unwrap_or(json!([]))}),
        Err(_) => json!({"ev":"enc","fam":fam,"ops":js::ops(ops),"panic":true,"bytes":[],"ok2":false,"ops2":[]}),
    }
}

/// every byte string of length `len` whose first byte lies in lo..=hi
pub fn exhaustive(out: &mut Out, len: usize, lo: u8, hi: u8) {
    if len == 0 {
        out.put(dec_record("exh0", &[]));
        return;
    }
    let mut b = vec![0u8; len];
    for first in lo..=hi {
        b[0] = first;
        let rest = len - 1;
        let total: u64 = 256u64.pow(rest as u32);
        for x in 0..total {
            let mut y = x;
            for i in 0..rest {
                b[len - 1 - i] = (y & 0xff) as u8;
                y >>= 8;
            }
            out.put(dec_record("exh", &b));
        }
    }
}

/// every opcode byte x argument-length classes
pub fn arg_classes(out: &mut Out, r: &mut StdRng) {
    for op in 0..=255u8 {
        for len in 0..40usize {
            for fill in 0..3 {
                let mut b = vec![op];
                for _ in 0..len {
                    b.push(match fill { 0 => 0, 1 => 1, _ => r.gen() });
                }
                out.put(dec_record("argclass", &b));
            }
        }
    }
    // PushB: declared length vs actual
    for declared in [0u8, 1, 2, 5, 31, 32, 33, 200, 255] {
        for actual in [0usize, 1, 2, 5, 31, 32, 33, 199, 200, 201, 254, 255, 256] {
            let mut b = vec![0xf0, declared];
            b.extend((0..actual).map(|_| r.gen::<u8>()));
            out.put(dec_record("pushb", &b));
        }
    }
    // PushIC: canonical / non-canonical / over-long
    for k in 0..=40u8 {
        for lead in [0u8, 1, 0x80, 0xff] {
            for extra in [0usize, 1] {
                let mut b = vec![0xf2, k];
                if k > 0 {
                    b.push(lead);
                    b.extend((1..k).map(|_| r.gen::<u8>()));
                }
                b.extend((0..extra).map(|_| 0x09u8));
                out.put(dec_record("pushic", &b));
                if !b.is_empty() {
                    let mut t = b.clone();
                    t.pop();
                    out.put(dec_record("pushic", &t));
                }
            }
        }
    }
}

pub fn random_strings(out: &mut Out, r: &mut StdRng, n: u64) {
    for i in 0..n {
        match i % 4 {
            0 => {
                let len = r.gen_range(0..60);
                let b: Vec<u8> = (0..len).map(|_| r.gen()).collect();
                out.put(dec_record("random", &b));
            }
            1 | 2 => {
                // mutate valid bytecode
                let ops = if r.gen() { vm::gen_typed(r) } else { vm::gen_uniform(r) };
                let mut b = Covenant::from_ops(&ops).to_bytes().to_vec();
                let muts = r.gen_range(0..3);
                for _ in 0..muts {
                    if b.is_empty() {
                        break;
                    }
                    let pos = r.gen_range(0..b.len());
                    match r.gen_range(0..4) {
                        0 => b[pos] = r.gen(),
                        1 => { b.remove(pos); }
                        2 => b.insert(pos, r.gen()),
                        _ => b.truncate(pos),
                    }
                }
                out.put(dec_record("mutated", &b));
            }
            _ => {
                let ops = if r.gen() { vm::gen_typed(r) } else { vm::gen_uniform(r) };
                out.put(enc_record("enc", &ops));
            }
        }
    }
    // representability edge: PushB of 255 / 256 bytes
    out.put(enc_record("enc-edge", &[OpCode::PushB(vec![1u8; 255])]));
    out.put(enc_record("enc-edge", &[OpCode::PushB(vec![])]));
    out.put(enc_record("enc-edge", &[OpCode::PushIC(ethnum::U256::MAX), OpCode::PushIC(ethnum::U256::ZERO), OpCode::PushI(ethnum::U256::ZERO)]));
    out.put(enc_record("enc-edge", &[OpCode::Loop(65535, 65535), OpCode::Exp(255), OpCode::Hash(65535)]));
}

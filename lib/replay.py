"""bin/check replay <file>: re-executes a reported violation against the CURRENT /repo tree.
For a trace verdict the seeded driver that produced the trace is run again (same arguments, same seed) on the rebuilt
harness and the fresh trace is validated by TLC; the violation is reproduced if the same property/clause is reported again.
For a specification-level violation the model is checked again."""
import json
import os
import shutil

import runner
from runner import log


def main(path):
    rp = json.load(open(path))
    runner.build_harness()
    work = os.path.join(runner.WORK, "replay-%d" % os.getpid())
    os.makedirs(work, exist_ok=True)
    try:
        if rp["kind"] == "spec-level":
            r = runner.run_tlc("replay", rp["module"], rp["cfg"], workers=8, mem="8g", queue="DiskStateQueue")
            if r["violated"]:
                print("REPRODUCED: specification %s/%s violates %s" % (rp["module"], rp["cfg"], r["violated"]))
                print("VIOLATION property=%s replay=%s" % (rp["property"], path))
                return 1
            print("NOT REPRODUCED")
            return 0
        args = rp.get("gen_args")
        v0 = rp["verdict"]
        print("recorded verdict: %s line %s: %s" % (v0.get("p"), v0.get("l"), v0.get("c")))
        if rp.get("record") is not None:
            rec = rp["record"]
            brief = {k: rec[k] for k in rec if k in ("ev", "res", "fam", "x", "action", "tag", "i", "ops", "bytes")}
            print("recorded event:", json.dumps(brief)[:1500])
        if not args:
            print("no generator arguments recorded; cannot re-execute")
            return 2
        tr = os.path.join(work, "trace.ndjson")
        runner.gen_trace(args, tr)
        r = runner.run_tlc("replay", rp["module"], rp["cfg"], workers=1, env={"TRACE": tr}, accel=True, mem="6g")
        same = [v for v in r["verdicts"] if v.get("p") == rp["property"] and v.get("c") == v0.get("c")]
        for v in same[:5]:
            print("re-executed on the current tree: %s line %s: %s %s" % (v.get("p"), v.get("l"), v.get("c"), v.get("kf", "")))
        if same:
            print("REPRODUCED")
            print("VIOLATION property=%s replay=%s" % (rp["property"], path))
            return 1
        print("NOT REPRODUCED on the current tree (%d other verdicts)" % len(r["verdicts"]))
        return 0
    finally:
        shutil.rmtree(work, ignore_errors=True)

#!/usr/bin/env python3
"""Runner for the melstf verification checks.

  bin/check <Cxx> [--tier quick|thorough] [--seed N]
  bin/check replay <file>
  bin/check selftest

Exit codes: 0 = property held on everything explored (KNOWN-FINDING lines allowed),
            1 = VIOLATION line(s) printed, 2 = tool error (never a verdict).
The only judge is the TLA+ specification: every verdict is a monitor of spec/Props / Trace_* evaluated by TLC.
"""
import concurrent.futures as cf
import hashlib
import json
import os
import re
import shutil
import subprocess
import sys
import time

VERIF = os.path.dirname(os.path.dirname(os.path.abspath(__file__)))
SPEC = os.path.join(VERIF, "spec")
HARNESS_DIR = os.path.join(VERIF, "harness")
HARNESS = os.path.join(HARNESS_DIR, "target", "release", "harness")
WORK = os.path.join(VERIF, "work")
EVID = os.path.join(VERIF, "evidence")
REPLAYS = os.path.join(VERIF, "replays")
REPO = "/repo"
JAVA_CP = "/opt/veriftools/tla/tla2tools.jar:/opt/veriftools/tla/CommunityModules-deps.jar:" + os.path.join(VERIF, "ov", "classes")


class ToolError(Exception):
    pass


def log(*a):
    print("[check]", *a, file=sys.stderr, flush=True)


# ----------------------------------------------------------------------------------------------
# building

def build_harness():
    t0 = time.time()
    env = dict(os.environ, CARGO_NET_OFFLINE="true")
    p = subprocess.run(["cargo", "build", "--release", "--offline"], cwd=HARNESS_DIR, env=env,
                       stdout=subprocess.PIPE, stderr=subprocess.STDOUT, text=True)
    if p.returncode != 0:
        sys.stderr.write(p.stdout[-6000:])
        raise ToolError("harness build failed (does /repo compile with --cfg melstf_verif?)")
    cls = os.path.join(VERIF, "ov", "classes", "verifov", "BigNatOv.class")
    if not os.path.exists(cls):
        os.makedirs(os.path.join(VERIF, "ov", "classes"), exist_ok=True)
        srcs = [os.path.join(VERIF, "ov", "src", "verifov", f) for f in os.listdir(os.path.join(VERIF, "ov", "src", "verifov"))]
        q = subprocess.run(["javac", "-cp", "/opt/veriftools/tla/tla2tools.jar", "-d", os.path.join(VERIF, "ov", "classes")] + srcs,
                           stdout=subprocess.PIPE, stderr=subprocess.STDOUT, text=True)
        if q.returncode != 0:
            raise ToolError("javac failed: " + q.stdout)
    return time.time() - t0


def tree_key():
    """hash of everything a cached result depends on: /repo sources and this framework"""
    h = hashlib.sha256()
    roots = [os.path.join(REPO, "src"), os.path.join(REPO, "lib"), os.path.join(REPO, "Cargo.toml"), os.path.join(REPO, "Cargo.lock"),
             SPEC, os.path.join(HARNESS_DIR, "src"), os.path.join(HARNESS_DIR, "Cargo.toml"), os.path.join(VERIF, "lib"),
             os.path.join(VERIF, "ov", "src"), os.path.join(VERIF, "known_findings.json")]
    for root in roots:
        if os.path.isfile(root):
            files = [root]
        else:
            files = []
            for d, dn, fn in os.walk(root):
                dn[:] = sorted(x for x in dn if x not in ("target", ".git", "states"))
                for f in sorted(fn):
                    files.append(os.path.join(d, f))
        for f in files:
            try:
                with open(f, "rb") as fh:
                    h.update(f.encode())
                    h.update(fh.read())
            except OSError:
                pass
    return h.hexdigest()[:20]


# ----------------------------------------------------------------------------------------------
# TLC

STATE_RE = re.compile(r"(\d+) states generated, (\d+) distinct states found")


def run_tlc(tag, module, cfg, workers=1, env=None, accel=False, timeout=3600, mem="4g", queue="StateDeque", extra=None, keep=()):
    meta = os.path.join(WORK, "tlc-%s-%d" % (tag, os.getpid()))
    os.makedirs(meta, exist_ok=True)
    e = dict(os.environ)
    e["JAVA_TOOL_OPTIONS"] = "-Xss1g -Dtlc2.tool.queue.IStateQueue=" + queue
    if env:
        e.update(env)
    cmd = ["java", "-XX:+UseParallelGC", "-Xmx" + mem]
    if accel:
        cmd.append("-Dtlc2.overrides.TLCOverrides=tlc2.overrides.TLCOverrides:verifov.Overrides")
    cmd += ["-cp", JAVA_CP, "tlc2.TLC", "-metadir", meta, "-cleanup", "-noGenerateSpecTE", "-workers", str(workers),
            "-config", cfg, module] + (extra or [])
    t0 = time.time()
    try:
        p = subprocess.run(cmd, cwd=SPEC, env=e, stdout=subprocess.PIPE, stderr=subprocess.STDOUT, text=True, timeout=timeout)
    except subprocess.TimeoutExpired:
        shutil.rmtree(meta, ignore_errors=True)
        raise ToolError("TLC timed out on %s/%s" % (module, cfg))
    shutil.rmtree(meta, ignore_errors=True)
    out = p.stdout
    res = {"module": module, "cfg": cfg, "wall_s": round(time.time() - t0, 2), "verdicts": [], "notes": [], "states": 0, "distinct": 0,
           "violated": [], "ok": False}
    for line in out.splitlines():
        line = line.strip()
        if line.startswith('"{') and line.endswith('}"'):
            try:
                v = json.loads(json.loads(line))
            except Exception:
                continue
            if v.get("k") == "VERDICT":
                res["verdicts"].append(v)
            elif v.get("k") == "NOTE":
                res["notes"].append(v)
            elif v.get("k") == "STAT":
                res.setdefault("stats", []).append(v)
            elif v.get("k") in keep:
                res.setdefault("kept", []).append(v)
        m = STATE_RE.search(line)
        if m:
            res["states"], res["distinct"] = int(m.group(1)), int(m.group(2))
        m = re.match(r"Error: Invariant (\S+) is violated", line)
        if m:
            res["violated"].append(m.group(1))
        m = re.match(r"Error: Action property (\S+) is violated", line)
        if m:
            res["violated"].append(m.group(1))
        if "Temporal properties were violated" in line:
            res["violated"].append("temporal")
    completed = "Model checking completed. No error has been found." in out
    res["ok"] = completed
    if not completed and not res["violated"]:
        sys.stderr.write(out[-5000:])
        raise ToolError("TLC failed on %s/%s (not a verdict)" % (module, cfg))
    res["tail"] = out[-3000:] if res["violated"] else ""
    return res


def gen_trace(args, out):
    t0 = time.time()
    p = subprocess.run([HARNESS] + args + ["--out", out], stdout=subprocess.PIPE, stderr=subprocess.PIPE, text=True, timeout=7200)
    if p.returncode != 0:
        sys.stderr.write(p.stderr[-3000:])
        raise ToolError("harness %s failed with exit %d" % (" ".join(args), p.returncode))
    info = {}
    for line in p.stdout.splitlines():
        try:
            info = json.loads(line)
        except Exception:
            pass
    info["gen_s"] = round(time.time() - t0, 2)
    return info


def read_records(path, lines):
    want = set(lines)
    got = {}
    with open(path) as fh:
        for i, line in enumerate(fh, 1):
            if i in want:
                got[i] = json.loads(line)
            if len(got) == len(want):
                break
    return got


# ----------------------------------------------------------------------------------------------
# jobs

class Job:
    """One unit of work whose result is cached per (tree, seed, tier)."""

    def __init__(self, name, kind, module, cfg=None, gen=None, accel=False, workers=1, serves=(), split=1, mem="4g", queue="StateDeque", timeout=3600,
                 expect_violated=(), genspec=None):
        self.genspec = genspec
        self.name, self.kind, self.module, self.cfg, self.gen = name, kind, module, cfg, gen
        self.accel, self.workers, self.serves, self.split, self.mem, self.queue, self.timeout = accel, workers, serves, split, mem, queue, timeout
        self.expect_violated = expect_violated

    def run(self, seed, tier, cache_dir):
        cpath = os.path.join(cache_dir, self.name + ".json")
        if os.path.exists(cpath):
            with open(cpath) as fh:
                r = json.load(fh)
            r["cached"] = True
            return r
        if self.kind == "mc":
            r = run_tlc(self.name, self.module + ".tla", self.cfg, workers=self.workers, accel=self.accel, mem=self.mem, queue="DiskStateQueue" if False else self.queue,
                        timeout=self.timeout)
            r.update(kind="mc", name=self.name, records=0, samples=[])
        else:
            tr = os.path.join(cache_dir, self.name + ".ndjson")
            args = [re.sub(r"\{seed(\+(\d+))?\}", lambda m: str(seed + int(m.group(2) or 0)), a) for a in self.gen]
            gen_stats = None
            if self.genspec:
                # spec -> impl: TLC enumerates behaviours / inputs, the harness replays them on the real code
                genfile = os.path.join(cache_dir, self.name + ".gen.ndjson")
                g = run_tlc(self.name + "-gen", self.genspec[0] + ".tla", self.genspec[1], workers=1, accel=self.accel, mem=self.mem, keep=("PROG", "SCEN", "UNIVERSE", "EDGE"))
                with open(genfile, "w") as fh:
                    for item in g.get("kept", []):
                        fh.write(json.dumps(item) + "\n")
                gen_stats = {"generated_by_tlc": len(g.get("kept", [])), "gen_module": self.genspec[0], "gen_cfg": self.genspec[1], "gen_states": g["states"]}
                args = [a.replace("{genfile}", genfile) for a in args]
            info = gen_trace(args, tr)
            r = run_tlc(self.name, self.module + ".tla", self.cfg or (self.module + ".cfg"), workers=1, env={"TRACE": tr}, accel=self.accel, mem=self.mem,
                        timeout=self.timeout)
            r.update(kind="trace", name=self.name, records=info.get("records", 0), info=info, trace=tr, gen_args=args, gen_stats=gen_stats)
            # samples: first records + records of verdicts
            sample_lines = [1, 2, 3]
            vl = sorted({v["l"] for v in r["verdicts"]})[:40]
            recs = read_records(tr, sample_lines + vl)
            r["samples"] = [compact(recs[i]) for i in sample_lines if i in recs]
            r["verdict_records"] = {str(i): recs[i] for i in vl if i in recs}
            if r["violated"] or not r["ok"]:
                raise ToolError("trace validator %s did not consume the whole trace: %s" % (self.name, r["violated"]))
        r["cached"] = False
        with open(cpath, "w") as fh:
            json.dump(r, fh)
        return r


def compact(rec, limit=1500):
    s = json.dumps(rec)
    if len(s) <= limit:
        return rec
    return {"truncated": s[:limit]}


# ----------------------------------------------------------------------------------------------
# known findings

def load_known():
    p = os.path.join(VERIF, "known_findings.json")
    if not os.path.exists(p):
        return []
    with open(p) as fh:
        return json.load(fh).get("findings", [])


def classify(prop, verdict, known):
    """returns the known-finding entry that lists exactly this failure, or None"""
    for k in known:
        if k["property"] != prop:
            continue
        m = k["match"]
        if all(str(verdict.get(f, "")) == str(val) for f, val in m.items()):
            return k
    return None


# ----------------------------------------------------------------------------------------------
# the registry is in props.py

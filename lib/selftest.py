"""Self-test of the machinery itself (run by bin/setup and `bin/check selftest`):
  1. BigNat.tla (pure TLA+ and with the BigInteger accelerator) against Python integers on fresh random vectors;
  2. every mutant specification under spec/mutants must be REFUTED by TLC (the invariants have teeth);
  3. the binding: corrupting one field of a recorded trace must produce a verdict at that line (VM, codec, ledger).
Exit 0 = all good, 2 = the machinery is broken (never a verdict about /repo)."""
import json
import os
import random
import shutil
import subprocess
import sys

import runner
from runner import ToolError, log


def limbs(x):
    out = []
    while x:
        out.append(x & 255)
        x >>= 8
    return out


def bignat_vectors(path, n, seed):
    r = random.Random(seed)
    with open(path, "w") as fh:
        for i in range(n):
            bits_a = r.choice([0, 1, 7, 8, 9, 31, 32, 63, 64, 65, 127, 128, 129, 200, 255, 256, 270])
            bits_b = r.choice([0, 1, 8, 16, 33, 64, 100, 128, 130, 256])
            a = r.getrandbits(bits_a) if bits_a else 0
            b = r.getrandbits(bits_b) if bits_b else 0
            if i % 7 == 0:
                b = a
            if i % 11 == 0 and b:
                a = b * r.getrandbits(40) + r.randrange(b)
            big, small = max(a, b), min(a, b)
            m256 = (1 << 256) - 1
            import math
            rec = {"a": limbs(a), "b": limbs(b), "add": limbs(a + b), "mul": limbs(a * b), "sub": limbs(big - small),
                   "div": limbs(a // b) if b else [], "mod": limbs(a % b) if b else [], "sqrt": limbs(math.isqrt(a)),
                   "d1000": limbs(a // 1000), "m1000": a % 1000, "shr16": limbs(a >> 16), "shr7": limbs(a >> 7), "shl13": limbs(a << 13),
                   "and": limbs((a & m256) & (b & m256)), "xor": limbs((a & m256) ^ (b & m256)), "not": limbs(m256 ^ (a & m256)),
                   "subw": limbs(((a & m256) - (b & m256)) % (1 << 256)), "bits": a.bit_length()}
            fh.write(json.dumps(rec) + "\n")


def expect_verdicts(tag, module, cfg, trace, wanted, accel=True):
    """wanted: set of (property, line); all must be reported"""
    r = runner.run_tlc("selftest-" + tag, module + ".tla", cfg, workers=1, env={"TRACE": trace}, accel=accel)
    got = {(v["p"], v["l"]) for v in r["verdicts"]}
    missing = [w for w in wanted if w not in got]
    if missing:
        raise ToolError("binding self-test %s: corrupted fields were not reported: %s (got %s)" % (tag, missing, sorted(got)[:10]))
    return len(r["verdicts"])


def main():
    work = os.path.join(runner.WORK, "selftest-%d" % os.getpid())
    os.makedirs(work, exist_ok=True)
    try:
        runner.build_harness()
        # 1. BigNat
        vec = os.path.join(work, "bn.ndjson")
        bignat_vectors(vec, 300, int.from_bytes(os.urandom(4), "big"))
        for accel in (False, True):
            r = runner.run_tlc("selftest-bn", "TestBigNat.tla", "TestBigNat.cfg", workers=1, env={"TRACE": vec}, accel=accel)
            if not r["ok"] or "MISMATCH" in r.get("tail", ""):
                raise ToolError("BigNat self-test failed (accel=%s)" % accel)
        log("selftest: BigNat agrees with Python integers on 300 vectors (pure TLA+ and accelerated)")
        # 2. mutants
        mdir = os.path.join(runner.SPEC, "mutants")
        for cfg in sorted(os.listdir(mdir)):
            if not cfg.endswith(".cfg"):
                continue
            module = "_".join(cfg.split("_")[:2])
            r = runner.run_tlc("selftest-mut", module + ".tla", os.path.join("mutants", cfg), workers=8, mem="6g", queue="DiskStateQueue", accel=(module == "MC_Peg"))
            if not r["violated"]:
                raise ToolError("mutant specification %s was NOT refuted by TLC" % cfg)
            log("selftest: mutant %s refuted (%s)" % (cfg, ", ".join(r["violated"])))
        # 3. binding
        vm = os.path.join(work, "vm.ndjson")
        runner.gen_trace(["vm", "--n", "300", "--seed", "7"], vm)
        recs = [json.loads(l) for l in open(vm)]
        li = next(i for i, r in enumerate(recs) if r["res"]["t"] == "i")
        recs[li]["res"]["v"] = [9, 9]
        recs[li]["pub"] = recs[li]["res"]
        recs[10]["steps"] += 1
        recs[20]["weight"] = [1, 2, 3]
        bad = os.path.join(work, "vm_bad.ndjson")
        open(bad, "w").write("\n".join(json.dumps(r) for r in recs) + "\n")
        expect_verdicts("vm", "Trace_VM", "Trace_VM.cfg", bad, {("C10", li + 1), ("C11", 21), ("C05", 21)})
        if not runner.run_tlc("selftest-vm0", "Trace_VM.tla", "Trace_VM.cfg", workers=1, env={"TRACE": vm}, accel=True)["ok"]:
            raise ToolError("clean VM trace rejected")
        cd = os.path.join(work, "codec.ndjson")
        runner.gen_trace(["codec", "--fam", "random", "--n", "400", "--seed", "7"], cd)
        recs = [json.loads(l) for l in open(cd)]
        li = next(i for i, r in enumerate(recs) if r["ev"] == "dec" and r["ok"] and len(r["bytes"]) > 2)
        recs[li]["re"] = recs[li]["re"][:-1]
        lj = next(i for i, r in enumerate(recs) if r["ev"] == "dec" and not r["ok"] and not r["panic"])
        recs[lj]["panic"] = True
        bad = os.path.join(work, "codec_bad.ndjson")
        open(bad, "w").write("\n".join(json.dumps(r) for r in recs) + "\n")
        expect_verdicts("codec", "Trace_Codec", "Trace_Codec.cfg", bad, {("C12", li + 1), ("C12", lj + 1)}, accel=False)
        lg = os.path.join(work, "ledger.ndjson")
        runner.gen_trace(["ledger", "--blocks", "5", "--seed", "7"], lg)
        recs = [json.loads(l) for l in open(lg)]
        a = next(i for i, r in enumerate(recs) if r["ev"] == "batch" and r["res"] == "ok" and r["post"]["coins"])
        recs[a]["post"]["coins"][0]["val"] = [1, 2, 3]                      # a coin value
        b = next(i for i, r in enumerate(recs) if i > a and r["ev"] == "batch" and r["res"] == "ok")
        recs[b]["post"]["feePool"] = recs[b]["post"]["feePool"][:-1] + [7]    # a fee pool limb
        c = next(i for i, r in enumerate(recs) if r["ev"] == "batch" and r["res"] == "err")
        recs[c]["res"] = "ok"                                                # a rejected batch reported as accepted
        d = next(i for i, r in enumerate(recs) if r["ev"] == "seal" and r["res"] == "ok" and r["post"]["pools"])
        recs[d]["post"]["pools"][0]["l"] = [5]                               # a pool reserve
        e = next(i for i, r in enumerate(recs) if i > b and r["ev"] == "batch" and r["res"] == "err")
        recs[e]["post"]["tips"] = [1]                                        # a rejected batch that changed something
        bad = os.path.join(work, "ledger_bad.ndjson")
        open(bad, "w").write("\n".join(json.dumps(r) for r in recs) + "\n")
        n = expect_verdicts("ledger", "Trace_Ledger", "Trace_Ledger.cfg", bad, {("C02", a + 1), ("C05", b + 1), ("C15", d + 1), ("C02", e + 1)})
        got = runner.run_tlc("selftest-l2", "Trace_Ledger.tla", "Trace_Ledger.cfg", workers=1, env={"TRACE": bad}, accel=True)
        if not any(v["l"] == c + 1 for v in got["verdicts"]):
            raise ToolError("binding self-test ledger: err->ok flip not reported")
        clean = runner.run_tlc("selftest-l0", "Trace_Ledger.tla", "Trace_Ledger.cfg", workers=1, env={"TRACE": lg}, accel=True)
        # removing an event: the validator must notice through the post-condition (whole file consumed) -> still consumed; instead the chain of states breaks
        log("selftest: binding demonstrated: corrupted coin value / fee pool limb / verdict flip / pool reserve / no-op reported (%d verdicts); clean trace %d verdicts" % (n, len(clean["verdicts"])))
        print("selftest-ok")
        return 0
    finally:
        shutil.rmtree(work, ignore_errors=True)
